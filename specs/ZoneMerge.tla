------------------------------ MODULE ZoneMerge ------------------------------
(***************************************************************************)
(* Composition of configuration files (property C12):                      *)
(* Zone::merge / Zones::insert_merge / Hosts::merge (dns-types) and        *)
(* load_zone_configuration (crates/resolved/src/fs.rs).                    *)
(*                                                                         *)
(* Zones are as in module ZoneLookup: [apex, auth, min, soa, recs]; an      *)
(* authoritative zone holds its SOA record in recs.  Hosts data is a set    *)
(* of [name, v, addr].                                                      *)
(*  MergeZone(a, b)   - code-shaped: the label-tree merge with its          *)
(*                      per-node wildcard rule, SOA replacement             *)
(*  UnionZone(a, b)   - declarative: union of the records, the later SOA    *)
(*  LoadConfig / UnionConfig - whole configurations                         *)
(***************************************************************************)
EXTENDS ZoneLookup

CONSTANTS BuggyF7,   \* TRUE = ZoneRecords::merge before fix F7 (wildcards dropped at nodes without any)
          BuggyF8    \* TRUE = Zone::merge before fix F8 (old SOA record kept beside the new one)

IsSoa(r) == r.type = "SOA"

-----------------------------------------------------------------------------
\* code-shaped: ZoneRecords::merge walks both trees; at a node that exists in `a`:
\* plain records are merged; wildcard records are merged into an existing wildcard set;
\* a subtree that does not exist in `a` is copied whole
MergeZone(a, b) ==
    LET soaNew == b.auth
        aRecs == IF soaNew /\ ~BuggyF8 THEN { r \in a.recs : ~IsSoa(r) } ELSE a.recs
        keepWild(r) == \/ ~BuggyF7
                       \/ ~Exists(a, r.name)                  \* whole subtree copied
                       \/ Wild(a, r.name) # {}                \* merged into an existing wildcard set
        bRecs == { r \in b.recs : ~r.wild \/ keepWild(r) }
    IN [apex |-> a.apex,
        auth |-> a.auth \/ b.auth,
        min |-> IF soaNew THEN b.min ELSE a.min,
        soa |-> IF soaNew THEN b.soa ELSE a.soa,
        recs |-> aRecs \cup bRecs]

\* Zones::insert_merge over a set of zones keyed by apex
InsertMerge(zs, z) ==
    IF \E x \in zs : x.apex = z.apex
    THEN { IF x.apex = z.apex THEN MergeZone(x, z) ELSE x : x \in zs }
    ELSE zs \cup {z}

\* Hosts::merge: the later file wins per name and family
HostsMerge(h, g) == { x \in h : ~\E y \in g : y.name = x.name /\ y.v = x.v } \cup g

\* From<Hosts> for Zone: one A / AAAA record (TTL 5) per mapping in a non-authoritative root zone
NoSoa == [name |-> <<>>, wild |-> FALSE, type |-> "NONE", data |-> "", target |-> <<>>, ttl |-> 0]
HostsZone(h) ==
    [apex |-> <<>>, auth |-> FALSE, min |-> 0, soa |-> NoSoa,
     recs |-> { [name |-> x.name, wild |-> FALSE, type |-> IF x.v = 4 THEN "A" ELSE "AAAA", data |-> x.addr,
                 target |-> <<>>, ttl |-> 5] : x \in h }]

RECURSIVE FoldZones(_, _)
FoldZones(zs, seq) == IF seq = <<>> THEN zs ELSE FoldZones(InsertMerge(zs, seq[1]), Tail(seq))
RECURSIVE FoldHosts(_, _)
FoldHosts(h, seq) == IF seq = <<>> THEN h ELSE FoldHosts(HostsMerge(h, seq[1]), Tail(seq))

\* load_zone_configuration: zone files in order, then the combined hosts
LoadConfig(zoneSeq, hostsSeq) == InsertMerge(FoldZones({}, zoneSeq), HostsZone(FoldHosts({}, hostsSeq)))

-----------------------------------------------------------------------------
\* declarative
UnionZone(a, b) ==
    [apex |-> a.apex, auth |-> a.auth \/ b.auth,
     min |-> IF b.auth THEN b.min ELSE a.min,
     soa |-> IF b.auth THEN b.soa ELSE a.soa,
     recs |-> (IF b.auth THEN { r \in a.recs : ~IsSoa(r) } ELSE a.recs) \cup b.recs]

RECURSIVE UnionAll(_, _)
UnionAll(z, seq) == IF seq = <<>> THEN z ELSE UnionAll(UnionZone(z, seq[1]), Tail(seq))

\* the configuration the property describes: per apex the union of the files for that apex, in order
UnionConfig(zoneSeq, hostsSeq) ==
    LET all == Append(zoneSeq, HostsZone(FoldHosts({}, hostsSeq)))
        apexes == { all[i].apex : i \in DOMAIN all }
        Of(ap) == SelectSeq(all, LAMBDA z : z.apex = ap)
    IN { UnionAll(Of(ap)[1], Tail(Of(ap))) : ap \in apexes }

OneSoa(z) == Cardinality({ r \in z.recs : IsSoa(r) }) = (IF z.auth THEN 1 ELSE 0)

=============================================================================
