---------------------------- MODULE ZoneMergeTrace ----------------------------
(* Trace validation for C12: each line is one configuration (zones and hosts   *)
(* maps in the order they are applied) with the zones the real code ended up   *)
(* with - through Zones::insert_merge / Hosts::merge and through               *)
(* load_zone_configuration on real files - and the results of lookups.         *)
EXTENDS ZoneMerge, Json, IOUtils, Functions

Rec == ndJsonDeserialize(IOEnv.TRACE)
VARIABLE l
vars == <<l>>

ZoneOf(zj) ==
    LET min == IF zj.auth THEN zj.soa.ttl ELSE 0
        base == [apex |-> zj.apex, auth |-> zj.auth, min |-> min, soa |-> zj.soa,
                 recs |-> IF zj.auth THEN {zj.soa} ELSE {}]
    IN [base EXCEPT !.recs = @ \cup { [r EXCEPT !.ttl = MaxOf(r.ttl, min)]
                                        : r \in { x \in Range(zj.recs) : x.type # "SOA" } }]

\* what is compared of a zone: apex, authority, the SOA, the record set
Proj(z) == [apex |-> z.apex, auth |-> z.auth, soa |-> IF z.auth THEN z.soa ELSE NoSoa, recs |-> z.recs]
DumpProj(d) == [apex |-> d.apex, auth |-> d.auth, soa |-> IF d.auth THEN d.soa ELSE NoSoa, recs |-> Range(d.recs)]

Norm(res) == [kind |-> res.kind, rrs |-> Range(res.rrs), cname |-> res.cname]

ObservedOK(o, U) ==
    /\ o.ok
    /\ { DumpProj(d) : d \in Range(o.zones) } = { Proj(u) : u \in U }            \* the union, per apex
    /\ \A d \in Range(o.zones) :
          /\ Len(d.recs) = Cardinality(Range(d.recs))                              \* duplicates removed
          /\ Cardinality({ r \in Range(d.recs) : r.type = "SOA" }) = (IF d.auth THEN 1 ELSE 0)   \* exactly one SOA
    /\ \A i \in DOMAIN o.results :                                                \* every question answered from the union
          LET x == o.results[i]
              zs == ZonesGet(U, x.q.name)
          IN IF zs = {} THEN ~x.zone.found
             ELSE LET z == CHOOSE y \in zs : TRUE IN
                  /\ x.zone.found /\ x.zone.apex = z.apex
                  /\ D1Free(z) => Norm(x.res) \in Rfc1034(z, x.q.name, x.q.type)

Check(i) ==
    LET c == Rec[i]
        zs == [k \in DOMAIN c.zones |-> ZoneOf(c.zones[k])]
        hs == [k \in DOMAIN c.hosts |-> Range(c.hosts[k])]
        U == UnionConfig(zs, hs)
    IN IF c.ev = "merge" /\ ObservedOK(c.api, U) /\ (c.has_files => ObservedOK(c.fs, U)) THEN TRUE
       ELSE PrintT(<<"REJECT", i>>)

Init == l = 0
Next == l < Len(Rec) /\ Check(l + 1) /\ l' = l + 1
Spec == Init /\ [][Next]_vars
AllConsumed == TLCGet("stats").diameter - 1 = Len(Rec)
=============================================================================
