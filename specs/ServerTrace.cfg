SPECIFICATION Spec
CONSTANTS
  BuggyF1 = FALSE
  Limit = 32
POSTCONDITION AllConsumed
CHECK_DEADLOCK FALSE
