------------------------------- MODULE Validate -------------------------------
(***************************************************************************)
(* What the recursive resolver keeps of an upstream reply (property C06):  *)
(* recursive.rs validate_nameserver_response, follow_cnames,               *)
(* get_better_ns_names; util/nameserver.rs response_matches_request and    *)
(* get_nxdomain_nodata_soa.                                                *)
(*                                                                         *)
(* A reply is [rcode, answers, authority, additional] (sequences of RRs    *)
(* [name, type, data, target, ttl]); header mismatches are a separate      *)
(* record of booleans.  mc is the "match count" of the delegation in use:  *)
(* the number of labels of its name, root label included.                  *)
(*                                                                         *)
(*  Relevant(q, mc, reply) - DECLARATIVE: the records C06 allows to be     *)
(*                           used or cached                                *)
(*  Keep(q, mc, reply)     - CODE-SHAPED: [kind, rrs, soa, cname, dname,   *)
(*                           hosts] as validate_nameserver_response        *)
(***************************************************************************)
EXTENDS LocalResolve

CONSTANTS BuggyF3,     \* TRUE = before fix F3: every CNAME of the answer section is kept once any alias was followed
          BuggyF4      \* TRUE = before fix F4: an NS record is kept when its TARGET is selected, whatever its owner

Labels(n) == Len(n) + 1

SeqRange(s) == { s[i] : i \in DOMAIN s }

-----------------------------------------------------------------------------
(* Declarative                                                             *)

\* the names reached from n by following CNAME records of `answers` (any one per owner), without repeating
RECURSIVE PathsFrom(_, _, _)
PathsFrom(answers, n, seen) ==
    LET next == { r.target : r \in { x \in SeqRange(answers) : x.type = "CNAME" /\ x.name = n } } \ seen
    IN IF next = {} THEN { <<n>> }
       ELSE UNION { { <<n>> \o p : p \in PathsFrom(answers, t, seen \cup {t}) } : t \in next }

OnPath(p, r) == \E i \in 1..(Len(p) - 1) : r.type = "CNAME" /\ r.name = p[i] /\ r.target = p[i + 1]

\* for one alias path p
RelevantFor(q, mc, reply, p) ==
    LET last == p[Len(p)]
        final == { r \in SeqRange(reply.answers) : r.name = last /\ QTypeMatches(r.type, q.type) }
        aliases == { r \in SeqRange(reply.answers) : OnPath(p, r) }
        ns == { r \in SeqRange(reply.answers) \cup SeqRange(reply.authority) :
                  r.type = "NS" /\ IsSubdomain(q.name, r.name) /\ Labels(r.name) > mc }
        glue == { r \in SeqRange(reply.answers) \cup SeqRange(reply.additional) :
                  r.type \in {"A", "AAAA"} /\ \E n \in ns : n.target = r.name }
    IN final \cup aliases \cup ns \cup glue

Relevant(q, mc, reply) ==
    UNION { RelevantFor(q, mc, reply, p) : p \in PathsFrom(reply.answers, q.name, {q.name}) }

\* the SOA that may be used (never cached) for a negative answer
NegativeSoaOK(q, mc, reply, soa) ==
    /\ reply.answers = <<>>
    /\ soa \in SeqRange(reply.authority) /\ soa.type = "SOA"
    /\ IsSubdomain(q.name, soa.name) /\ Labels(soa.name) >= mc

\* response_matches_request: hdr = [id, qr, opcode, tc, rcode_ok, question] (TRUE = as required)
Matches(hdr) == hdr.id /\ hdr.qr /\ hdr.opcode /\ hdr.tc /\ hdr.rcode_ok /\ hdr.question

-----------------------------------------------------------------------------
(* Code-shaped                                                             *)

\* follow_cnames: cname_map holds, per owner, the LAST CNAME of the section
CnameMap(answers) ==
    LET owners == { answers[i].name : i \in { k \in DOMAIN answers : answers[k].type = "CNAME" } }
        lastIdx(o) == CHOOSE i \in DOMAIN answers :
                        /\ answers[i].type = "CNAME" /\ answers[i].name = o
                        /\ \A j \in DOMAIN answers : (answers[j].type = "CNAME" /\ answers[j].name = o) => j <= i
    IN [o \in owners |-> answers[lastIdx(o)].target]

RECURSIVE Follow(_, _, _)
Follow(map, cur, seen) ==       \* [ok, final, seen]
    IF cur \in DOMAIN map
    THEN IF map[cur] \in seen THEN [ok |-> FALSE, final |-> cur, seen |-> seen]
         ELSE Follow(map, map[cur], seen \cup {map[cur]})
    ELSE [ok |-> TRUE, final |-> cur, seen |-> seen]

FollowCnames(answers, target, qtype) ==
    LET gotMatch == \E r \in SeqRange(answers) : r.name = target /\ QTypeMatches(r.type, qtype)
        f == Follow(CnameMap(answers), target, {})
    IN IF f.ok /\ (gotMatch \/ f.seen # {}) THEN [ok |-> TRUE, final |-> f.final, onpath |-> {target} \cup f.seen]
       ELSE [ok |-> FALSE, final |-> target, onpath |-> {}]

\* get_better_ns_names over one section: [has, count, name, hosts]
RECURSIVE BetterNs(_, _, _, _, _)
BetterNs(rrs, target, count, name, hosts) ==
    IF rrs = <<>> THEN [has |-> name # <<"?">>, count |-> count, name |-> name, hosts |-> hosts]
    ELSE LET r == rrs[1] IN
         IF r.type = "NS" /\ IsSubdomain(target, r.name)
         THEN IF Labels(r.name) > count THEN BetterNs(Tail(rrs), target, Labels(r.name), r.name, {r.target})
              ELSE IF Labels(r.name) = count THEN BetterNs(Tail(rrs), target, count, name, hosts \cup {r.target})
              ELSE BetterNs(Tail(rrs), target, count, name, hosts)
         ELSE BetterNs(Tail(rrs), target, count, name, hosts)

NoKeep == [kind |-> "none", rrs |-> <<>>, soa |-> NoRR, cname |-> <<>>, dname |-> <<>>, hosts |-> {}]

NegativeSoa(q, mc, reply) ==
    LET soas == SelectSeq(reply.authority, LAMBDA r : r.type = "SOA") IN
    IF reply.answers # <<>> \/ Len(soas) # 1 THEN [has |-> FALSE, soa |-> NoRR]
    ELSE IF ~IsSubdomain(q.name, soas[1].name) \/ Labels(soas[1].name) < mc THEN [has |-> FALSE, soa |-> NoRR]
    ELSE [has |-> TRUE, soa |-> soas[1]]

Keep(q, mc, reply) ==
    LET fc == FollowCnames(reply.answers, q.name, q.type) IN
    IF fc.ok
    THEN LET map == CnameMap(reply.answers)
             kept == SelectSeq(reply.answers, LAMBDA an :
                        \/ (QTypeMatches(an.type, q.type) /\ an.name = fc.final)
                        \/ (an.type = "CNAME" /\ (IF BuggyF3 THEN an.name \in DOMAIN map
                                                   ELSE an.name \in fc.onpath /\ an.name \in DOMAIN map
                                                        /\ map[an.name] = an.target)))
             seenFinal == \E an \in SeqRange(reply.answers) : QTypeMatches(an.type, q.type) /\ an.name = fc.final
         IN IF kept = <<>> THEN NoKeep
            ELSE IF seenFinal THEN [NoKeep EXCEPT !.kind = "answer", !.rrs = kept]
            ELSE [NoKeep EXCEPT !.kind = "cname", !.rrs = kept, !.cname = fc.final]
    ELSE LET a == BetterNs(reply.answers, q.name, mc, <<"?">>, {})
             b == BetterNs(reply.authority, q.name, mc, <<"?">>, {})
             sel == IF a.has /\ b.has
                    THEN (IF Labels(a.name) > Labels(b.name) THEN a
                          ELSE IF Labels(a.name) = Labels(b.name) THEN [a EXCEPT !.hosts = a.hosts \cup b.hosts]
                          ELSE b)
                    ELSE IF a.has THEN a ELSE b
         IN IF ~a.has /\ ~b.has
            THEN LET n == NegativeSoa(q, mc, reply) IN
                 IF n.has THEN [NoKeep EXCEPT !.kind = "answer", !.soa = n.soa] ELSE NoKeep
            ELSE LET nsOK(r) == r.type = "NS" /\ r.target \in sel.hosts /\ (BuggyF4 \/ r.name = sel.name)
                     addrOK(r) == r.type \in {"A", "AAAA"} /\ r.name \in sel.hosts
                     rrs == SelectSeq(reply.answers, LAMBDA r : nsOK(r) \/ addrOK(r))
                            \o SelectSeq(reply.authority, LAMBDA r : nsOK(r))
                            \o SelectSeq(reply.additional, LAMBDA r : addrOK(r))
                 IN [NoKeep EXCEPT !.kind = "delegation", !.rrs = rrs, !.dname = sel.name, !.hosts = sel.hosts]

=============================================================================
