-------------------------------- MODULE Server --------------------------------
(***************************************************************************)
(* The DNS front end of the resolved binary (crates/resolved/src/main.rs,  *)
(* crates/dns-resolver/src/util/net.rs): property C09.                     *)
(*                                                                         *)
(* Expected(req, udp, cfg) says, for the octets of one datagram or one     *)
(* length-prefixed TCP message, whether the server replies and what the    *)
(* reply must be: the triage (response flag, FORMERR, NOTIMP, REFUSED,     *)
(* SERVFAIL), the echo rules, RA, and - in authoritative-only mode, where  *)
(* the answer is a function of the configured zones - the sections, AA and *)
(* RCODE the local resolver produces.  Framing (512-octet UDP limit with   *)
(* TC, TCP length prefix) is checked on the reply octets.                  *)
(*                                                                         *)
(* Names are label sequences of OCTET sequences here (the wire module's    *)
(* notation); the zone modules only compare labels, so they work on them   *)
(* unchanged.  cfg = [authOnly, zones, rdmap] where rdmap gives the wire   *)
(* form [wtype, names, ints, raw] of every (type, data) of the zones.      *)
(***************************************************************************)
EXTENDS LocalResolve, Functions

W == INSTANCE Wire WITH PtrLimit <- 16384, BuggyF2 <- FALSE

KnownTypes == (1..16) \cup {28, 33}
QTypeName(t) ==
    CASE t = 1 -> "A" [] t = 2 -> "NS" [] t = 3 -> "MD" [] t = 4 -> "MF" [] t = 5 -> "CNAME" [] t = 6 -> "SOA"
      [] t = 7 -> "MB" [] t = 8 -> "MG" [] t = 9 -> "MR" [] t = 10 -> "NULL" [] t = 11 -> "WKS" [] t = 12 -> "PTR"
      [] t = 13 -> "HINFO" [] t = 14 -> "MINFO" [] t = 15 -> "MX" [] t = 16 -> "TXT" [] t = 28 -> "AAAA"
      [] t = 33 -> "SRV" [] t = 252 -> "AXFR" [] t = 253 -> "MAILB" [] t = 254 -> "MAILA" [] t = 255 -> "ANY"
      [] OTHER -> "?"
UnknownQuestion(q) == (q.qtype \notin KnownTypes \cup (252..255)) \/ (q.qclass \notin {1, 255})

Hdr(id, opcode, aa, tc, rd, ra, rcode) ==
    [id |-> id, qr |-> TRUE, opcode |-> opcode, aa |-> aa, tc |-> tc, rd |-> rd, ra |-> ra, rcode |-> rcode]

NoReply == [reply |-> FALSE]
\* sections are SETS of wire records here (order inside a section is only constrained for alias chains)
Rep(h, qs, an, au, ref) == [reply |-> TRUE, hdr |-> h, questions |-> qs, answers |-> an, authority |-> au, referral |-> ref]

\* wire form of a resolver-level record
ToWire(cfg, rr) ==
    LET m == CHOOSE x \in Range(cfg.rdmap) : x.type = rr.type /\ x.data = rr.data IN
    [name |-> rr.name, type |-> m.wtype, class |-> 1, ttl |-> <<rr.ttl \div 65536, rr.ttl % 65536>>,
     names |-> m.names, ints |-> m.ints, raw |-> m.raw]

Expected(req, cfg) ==
    IF Len(req) < 2 THEN NoReply
    ELSE LET d == W!Denote(req) IN
    IF ~d.ok THEN Rep(Hdr(d.id, 0, FALSE, FALSE, FALSE, TRUE, 1), <<>>, {}, {}, FALSE)                  \* FORMERR
    ELSE LET m == d.msg IN
    IF m.qr THEN NoReply                                                                                \* a response
    ELSE IF m.opcode # 0
    THEN Rep(Hdr(m.id, m.opcode, FALSE, FALSE, m.rd, TRUE, 4), m.questions, {}, {}, FALSE)              \* NOTIMP
    ELSE LET ra == ~cfg.authOnly
             servfail == Rep(Hdr(m.id, 0, FALSE, FALSE, m.rd, ra, 2), m.questions, {}, {}, FALSE)
         IN
         IF Len(m.questions) = 0 THEN servfail
         ELSE IF Len(m.questions) > 1 \/ UnknownQuestion(m.questions[1])
         THEN Rep(Hdr(m.id, 0, FALSE, FALSE, m.rd, ra, 5), m.questions, {}, {}, FALSE)                  \* REFUSED
         ELSE LET q == [name |-> m.questions[1].name, type |-> QTypeName(m.questions[1].qtype)]
                  lr == ResolveLocal(cfg.zones, {}, q, <<>>)
                  res == ToResolved(lr)
                  an == { ToWire(cfg, res.rrs[i]) : i \in DOMAIN res.rrs }
                  au == IF res.soa = NoRR THEN {} ELSE { ToWire(cfg, res.soa) }
              IN \* mode "fwd-empty": a forwarding resolver whose forwarder answers every question with an empty
                 \* NOERROR reply - what local data contributes (a complete answer, the local part of an ANY answer, an
                 \* alias chain leaving local data) is the whole reply, everything else is empty and hence SERVFAIL:
                 \* the reply is again a function of the configuration alone
                 IF cfg.mode = "fwd-empty" /\ lr.kind \in {"delegation", "err"} THEN servfail
                 ELSE IF res.kind = "Err" \/ (an = {} /\ au = {} /\ res.kind # "NameError") THEN servfail
                 ELSE Rep(Hdr(m.id, 0, res.kind \in {"Authoritative", "NameError"}, FALSE, m.rd, ra,
                              IF res.kind = "NameError" THEN 3 ELSE 0),
                          m.questions, an, au, lr.kind = "delegation")

-----------------------------------------------------------------------------
\* C09: the answer section holds only records for the question name or its alias chain
RECURSIVE ChainNames(_, _, _)
ChainNames(answers, n, seen) ==
    LET next == { a.names[1] : a \in { x \in answers : x.type = 5 /\ x.name = n } } \ seen IN
    IF next = {} THEN {n} ELSE {n} \cup UNION { ChainNames(answers, t, seen \cup {t}) : t \in next }

AnswerOwnersOK(qname, answers) == \A a \in answers : a.name \in ChainNames(answers, qname, {qname})

\* alias records precede what they lead to: each CNAME's owner is the question name or an earlier CNAME's target
ChainOrderOK(qname, seq) ==
    \A i \in DOMAIN seq : seq[i].type = 5 =>
        (seq[i].name = qname \/ \E j \in 1..(i - 1) : seq[j].type = 5 /\ seq[j].names[1] = seq[i].name)

=============================================================================
