----------------------------- MODULE NameOctets -----------------------------
(***************************************************************************)
(* Domain names at octet level (property C16): what each constructor of    *)
(* crates/dns-types/src/protocol/types.rs must accept and produce.         *)
(*                                                                         *)
(* A constructed name is the sequence of ALL its labels, the final one     *)
(* being the empty root label; a label is a sequence of octets.  Text is   *)
(* a sequence of octets (UTF-8 of the string handed to the constructor).   *)
(***************************************************************************)
EXTENDS Naturals, Sequences, FiniteSets

LabelMax == 63
NameMax == 255
Dot == 46

Lower(c) == IF c >= 65 /\ c <= 90 THEN c + 32 ELSE c
LowerSeq(s) == [i \in DOMAIN s |-> Lower(s[i])]
LowerName(n) == [i \in DOMAIN n |-> LowerSeq(n[i])]

RECURSIVE SumLen(_)
SumLen(n) == IF n = <<>> THEN 0 ELSE Len(n[1]) + SumLen(Tail(n))

\* encoded length: one length octet per label plus the label octets
EncodedLen(n) == Len(n) + SumLen(n)

\* C16: absolute, no empty label other than the final root label, limits respected
WellFormed(n) ==
    /\ Len(n) >= 1
    /\ n[Len(n)] = <<>>
    /\ \A i \in 1..(Len(n) - 1) : Len(n[i]) >= 1
    /\ \A i \in DOMAIN n : Len(n[i]) <= LabelMax
    /\ EncodedLen(n) <= NameMax

NoName == [ok |-> FALSE, name |-> <<>>]
Name(n) == [ok |-> TRUE, name |-> n]

\* from_labels (after Label::try_from on every label): lower-cased, or rejected
FromLabels(labels) == IF WellFormed(labels) THEN Name(LowerName(labels)) ELSE NoName

\* split text on dots
RECURSIVE Split(_, _, _)
Split(s, cur, acc) ==
    IF s = <<>> THEN Append(acc, cur)
    ELSE IF s[1] = Dot THEN Split(Tail(s), <<>>, Append(acc, cur))
    ELSE Split(Tail(s), Append(cur, s[1]), acc)

\* from_dotted_string: "." is the root; otherwise the dot-separated chunks are the labels,
\* so the text must end with a dot (final empty label) and have no other empty chunk
FromDotted(s) == IF s = <<Dot>> THEN Name(<< <<>> >>) ELSE FromLabels(Split(s, <<>>, <<>>))

RECURSIVE Join(_)
Join(n) == IF Len(n) = 1 THEN n[1]
           ELSE n[1] \o <<Dot>> \o Join(Tail(n))

\* to_dotted_string (octets of the labels joined by dots; the root is ".")
ToDotted(n) == IF n = << <<>> >> THEN <<Dot>> ELSE Join(n)

\* from_relative_dotted_string
FromRelative(origin, s) ==
    IF s = <<>> THEN Name(origin)
    ELSE IF s[Len(s)] = Dot THEN FromDotted(s)
    ELSE LET suffix == ToDotted(origin) IN
         IF suffix[1] = Dot THEN FromDotted(s \o suffix) ELSE FromDotted(s \o <<Dot>> \o suffix)

\* make_subdomain_of: the relative labels of `a` in front of origin `b`
MakeSubdomain(a, b) == FromLabels(SubSeq(a, 1, Len(a) - 1) \o b)

\* the subdomain relation is label-wise suffix
IsSubdomain(a, b) == Len(b) <= Len(a) /\ SubSeq(a, Len(a) - Len(b) + 1, Len(a)) = b

IsAsciiNoDot(n) == \A i \in DOMAIN n : \A k \in DOMAIN n[i] : n[i][k] < 128 /\ n[i][k] # Dot

=============================================================================
