------------------------------- MODULE Names -------------------------------
(***************************************************************************)
(* Resolver-level domain names.                                            *)
(*                                                                         *)
(* A name is a sequence of labels, most specific first, WITHOUT the root   *)
(* label: the root is <<>>, www.example.com. is <<"www","example","com">>. *)
(* At this level a label is an atomic (lower-case) string; octet-level     *)
(* questions (case folding, 63/255 limits, escapes) live in NameOctets.    *)
(***************************************************************************)
EXTENDS Naturals, Sequences, FiniteSets

Root == <<>>

\* the last k labels of n (the ancestor of n with k labels)
Suffix(n, k) == SubSeq(n, Len(n) - k + 1, Len(n))

IsNameSuffix(s, n) == Len(s) <= Len(n) /\ Suffix(n, Len(s)) = s

\* n is a (not necessarily proper) subdomain of a: label-wise suffix
IsSubdomain(n, a) == IsNameSuffix(a, n)

StrictlyBeneath(n, a) == IsNameSuffix(a, n) /\ Len(n) > Len(a)

Parent(n) == Tail(n)

\* all ancestors-or-self of n, root included
Ancestors(n) == { Suffix(n, k) : k \in 0..Len(n) }

\* the labels of n that are not part of its suffix a, in order
Relative(n, a) == SubSeq(n, 1, Len(n) - Len(a))

\* number of labels as the implementation counts them (root label included)
LabelCount(n) == Len(n) + 1

=============================================================================
