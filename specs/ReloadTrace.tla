------------------------------ MODULE ReloadTrace ------------------------------
(***************************************************************************)
(* Trace validation for C19: the real binary, real files, real SIGUSR1.    *)
(* The first line lists the configurations the disk goes through           *)
(* (id, zones, wire forms); then, in the order of a driver-side sequence   *)
(* number: `signal` (with the id of what is on disk, or 0 if a file is     *)
(* unreadable / invalid), `reload_done` (success or failure, from the      *)
(* server's log), `rest` (nothing signalled or reported for a while: the   *)
(* last signalled disk must be in force), `send` and `recv` of queries.  Because the order across  *)
(* processes is only known up to these events, the specification tracks    *)
(* the SET of configurations that may be in force: a successful reload may *)
(* swap at any moment between its signal and its completion.  A reply must *)
(* be, as a whole, the reply of ONE configuration possibly in force at     *)
(* some moment between the query's send and its recv.                      *)
(***************************************************************************)
EXTENDS Server, Json, IOUtils, TLC

Rec == ndJsonDeserialize(IOEnv.TRACE)
VARIABLES l, possible, inflight, pending
vars == <<l, possible, inflight, pending>>

ZoneOf(zj) ==
    LET min == IF zj.auth THEN zj.soa.ttl ELSE 0
        base == [apex |-> zj.apex, auth |-> zj.auth, min |-> min, soa |-> zj.soa,
                 recs |-> IF zj.auth THEN {zj.soa} ELSE {}]
    IN [base EXCEPT !.recs = @ \cup { [r EXCEPT !.ttl = MaxOf(r.ttl, min)]
                                        : r \in { x \in Range(zj.recs) : x.type # "SOA" } }]

Configs == Rec[1].configs
CfgOf(id) == LET c == CHOOSE x \in Range(Configs) : x.id = id IN
             [authOnly |-> Rec[1].mode = "auth", mode |-> Rec[1].mode, zones |-> { ZoneOf(c.zones[i]) : i \in DOMAIN c.zones }, rdmap |-> c.rdmap]

Bit(x, mask) == (x \div mask) % 2 = 1

\* the reply octets are the reply configuration `id` gives to the request
ReplyOf(id, e) ==
    LET x == Expected(e.req, CfgOf(id))
        d == W!Denote(e.reply.bytes)
    IN /\ x.reply /\ e.reply.present /\ d.ok
       /\ d.msg.id = x.hdr.id /\ d.msg.rcode = x.hdr.rcode /\ d.msg.aa = x.hdr.aa
       /\ d.msg.questions = x.questions
       /\ Range(d.msg.answers) = x.answers /\ Len(d.msg.answers) = Cardinality(x.answers)
       /\ Range(d.msg.authority) = x.authority /\ Len(d.msg.authority) = Cardinality(x.authority)

Widen(p) == [q \in DOMAIN pending |-> pending[q] \cup p]

Step(e) ==
    CASE e.ev = "signal" ->
            \* from now until the reload is reported done, the new configuration may be swapped in at any moment
            /\ inflight' = Append(inflight, e.disk)
            /\ possible' = IF e.disk = 0 THEN possible ELSE possible \cup {e.disk}
            /\ pending' = Widen(possible')
      [] e.ev = "reload_done" ->
            /\ Len(inflight) >= 1
            /\ IF Len(inflight) = 1
               THEN \* all or nothing: success exactly when every file was readable and valid
                    /\ e.ok = (inflight[1] # 0)
                    /\ possible' = IF e.ok THEN {inflight[1]} ELSE possible
                    /\ inflight' = <<>>
               ELSE \* further signals arrived while this reload was loading: it read the disk at some moment since the
                    \* first of them, and ONE notification is still outstanding (the signal stream coalesces): the task
                    \* reloads once more, reading the disk as the last signal found it
                    /\ IF e.ok THEN /\ Range(inflight) \ {0} # {}
                                    /\ possible' = Range(inflight) \ {0}
                               ELSE /\ 0 \in Range(inflight)
                                    /\ possible' = possible
                    /\ inflight' = <<inflight[Len(inflight)]>>
            /\ pending' = Widen(possible')
      [] e.ev = "rest" ->
            \* the driver saw no signal and no report for a while (longer than the slowest reload of the schedule) and
            \* the disk has not changed since the last signal: nothing signalled may be lost, so the configuration in
            \* force is the one on disk if that is good (Reload!Inv_C19_Fresh), and what was in force before otherwise
            /\ possible' = IF e.disk # 0 THEN {e.disk} ELSE possible
            /\ inflight' = <<>>
            /\ pending' = pending
      [] e.ev = "send" ->
            /\ pending' = [q \in DOMAIN pending \cup {e.qid} |-> IF q = e.qid THEN possible ELSE pending[q]]
            /\ UNCHANGED <<possible, inflight>>
      [] e.ev = "recv" ->
            \* the server keeps answering, and answers from one whole configuration
            /\ e.reply.present
            /\ \E id \in pending[e.qid] : ReplyOf(id, e)
            /\ pending' = [q \in DOMAIN pending \ {e.qid} |-> pending[q]]
            /\ UNCHANGED <<possible, inflight>>

Init == l = 1 /\ possible = {Rec[1].initial} /\ inflight = <<>> /\ pending = [q \in {} |-> {}]
Next == l < Len(Rec) /\ Step(Rec[l + 1]) /\ l' = l + 1
Spec == Init /\ [][Next]_vars

Accepted ==
    LET d == TLCGet("stats").diameter IN
    IF d = Len(Rec) THEN TRUE ELSE PrintT(<<"UNMATCHED", d + 1>>) /\ FALSE
=============================================================================
