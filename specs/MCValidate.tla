------------------------------ MODULE MCValidate ------------------------------
(* C06 at small scope: every reply of up to MaxRecs records, each placed in any *)
(* section, from a universe with unrelated owners, off-path aliases, NS for     *)
(* non-ancestors, NS with a foreign owner but a selected target, glue for        *)
(* unnamed hosts; three questions, two delegation depths.                        *)
EXTENDS Validate, Json

CONSTANTS MaxRecs

VARIABLES reply
vars == <<reply>>

N(s) == s
www == <<"www", "ex", "com">>
ex == <<"ex", "com">>
R(name, type, data, target) == [name |-> name, type |-> type, data |-> data, target |-> target, ttl |-> 300]

Universe ==
    { R(www, "A", "1.1.1.1", <<>>), R(www, "CNAME", "t.ex.com.", <<"t", "ex", "com">>),
      R(<<"t", "ex", "com">>, "A", "2.2.2.2", <<>>), R(<<"t", "ex", "com">>, "CNAME", "u.other.", <<"u", "other">>),
      R(<<"off", "ex", "com">>, "CNAME", "evil.x.", <<"evil", "x">>), R(<<"evil", "x">>, "A", "6.6.6.6", <<>>),
      R(www, "TXT", "x00", <<>>),
      R(ex, "NS", "ns1.ex.com.", <<"ns1", "ex", "com">>), R(ex, "NS", "ns2.other.", <<"ns2", "other">>),
      R(<<"com">>, "NS", "a.gtld.", <<"a", "gtld">>), R(<<"other", "org">>, "NS", "ns.evil.", <<"ns", "evil">>),
      R(<<"ex", "net">>, "NS", "ns1.ex.com.", <<"ns1", "ex", "com">>),
      R(www, "NS", "ns1.ex.com.", <<"ns1", "ex", "com">>),
      R(<<"ns1", "ex", "com">>, "A", "7.7.7.7", <<>>), R(<<"ns", "evil">>, "A", "8.8.8.8", <<>>),
      R(<<"ns2", "other">>, "AAAA", "::9", <<>>),
      R(ex, "SOA", "m. r. 1 2 3 4 5", <<>>), R(<<"com">>, "SOA", "m. r. 1 2 3 4 5", <<>>),
      R(<<"other">>, "SOA", "m. r. 1 2 3 4 5", <<>>) }

Questions == { [name |-> www, type |-> "A"], [name |-> www, type |-> "ANY"], [name |-> ex, type |-> "NS"] }
Depths == {1, 2, 3}

NRecs == Len(reply.answers) + Len(reply.authority) + Len(reply.additional)

Init == reply = [rcode |-> 0, answers |-> <<>>, authority |-> <<>>, additional |-> <<>>]
Next == /\ NRecs < MaxRecs
        /\ \E r \in Universe :
              \/ reply' = [reply EXCEPT !.answers = Append(@, r)]
              \/ reply' = [reply EXCEPT !.authority = Append(@, r)]
              \/ reply' = [reply EXCEPT !.additional = Append(@, r)]
Spec == Init /\ [][Next]_vars

Inv_C06_UsedSubset ==
    \A q \in Questions, mc \in Depths :
        LET k == Keep(q, mc, reply) IN
        /\ SeqRange(k.rrs) \subseteq Relevant(q, mc, reply)
        /\ k.soa # NoRR => NegativeSoaOK(q, mc, reply, k.soa)

Inv_Gen == PrintT(<<"GENREPLY", ToJson(reply)>>)
=============================================================================
