-------------------------------- MODULE MCLocal --------------------------------
(* C01 / C10 at small scope, local part: every configuration of a              *)
(* non-authoritative root zone (hosts / hints / overrides), an authoritative    *)
(* zone, and cache contents over a spine of nested names, and every question:   *)
(* the code-shaped local resolution satisfies the declarative properties.       *)
EXTENDS LocalResolve, Json

CONSTANTS MaxRecs, MaxCache

VARIABLES root, auth, cache
vars == <<root, auth, cache>>

\* spine a. / b.a. / c.b.a. ; the authoritative zone is b.a.; x. is outside
Names == { <<"a">>, <<"b", "a">>, <<"c", "b", "a">>, <<"d", "b", "a">>, <<"x">> }
AuthApex == <<"b", "a">>

Data == { [type |-> "A", data |-> "10.0.0.1", target |-> <<>>],
          [type |-> "A", data |-> "0.0.0.0", target |-> <<>>],
          [type |-> "CNAME", data |-> "c.b.a.", target |-> <<"c", "b", "a">>],
          [type |-> "CNAME", data |-> "x.", target |-> <<"x">>],
          [type |-> "CNAME", data |-> "d.b.a.", target |-> <<"d", "b", "a">>],
          [type |-> "NS", data |-> "x.", target |-> <<"x">>] }

Recs(names, wilds) == { [name |-> n, wild |-> w, type |-> d.type, data |-> d.data, target |-> d.target, ttl |-> 300]
                          : n \in names, w \in wilds, d \in Data }
CacheRecs == { [name |-> n, type |-> d.type, data |-> d.data, target |-> d.target, ttl |-> 77]
                 : n \in Names, d \in { x \in Data : x.type # "NS" } }

SoaAuth == [name |-> AuthApex, wild |-> FALSE, type |-> "SOA", data |-> "m. r. 1 2 3 4 60", target |-> <<>>, ttl |-> 60]
RootZone == [apex |-> <<>>, auth |-> FALSE, min |-> 0,
             soa |-> [name |-> <<>>, wild |-> FALSE, type |-> "NONE", data |-> "", target |-> <<>>, ttl |-> 0], recs |-> root]
AuthZone == [apex |-> AuthApex, auth |-> TRUE, min |-> 60, soa |-> SoaAuth, recs |-> auth \cup {SoaAuth}]
Zones == {RootZone, AuthZone}

Init == root = {} /\ auth = {} /\ cache = {}
Next ==
    \/ /\ Cardinality(root) + Cardinality(auth) < MaxRecs
       /\ \E r \in Recs(Names, BOOLEAN) : root' = root \cup {r}
       /\ UNCHANGED <<auth, cache>>
    \/ /\ Cardinality(root) + Cardinality(auth) < MaxRecs
       /\ \E r \in Recs({ n \in Names : IsSubdomain(n, AuthApex) }, BOOLEAN) : auth' = auth \cup {r}
       /\ UNCHANGED <<root, cache>>
    \/ /\ Cardinality(cache) < MaxCache
       /\ \E r \in CacheRecs : cache' = cache \cup {r}
       /\ UNCHANGED <<root, auth>>
Spec == Init /\ [][Next]_vars

Questions == { [name |-> n, type |-> t] : n \in Names \cup { <<"q", "b", "a">> }, t \in {"A", "CNAME", "NS", "ANY"} }

ResultOf(q) == ToResolved(ResolveLocal(Zones, cache, q, <<>>))

Inv_C01_AuthOwns == \A q \in Questions : AuthOwns(Zones, q, ResultOf(q), 0)
Inv_C01_Override == \A q \in Questions : Override(Zones, q, ResultOf(q), 0)
Inv_C01_Provenance == \A q \in Questions : Provenance(Zones, ResultOf(q))
Inv_C01_NxOnlyAuth == \A q \in Questions : NameErrorOnlyAuth(Zones, q, ResultOf(q))
Inv_C10_Chain == \A q \in Questions :
    LET r == ResultOf(q) IN
    \* a referral from an authoritative zone is returned in the answer section (D3 / finding F6): not an alias chain
    (r.kind \in {"Authoritative", "NonAuthoritative"} /\ ResolveLocal(Zones, cache, q, <<>>).kind # "delegation")
        => ChainOk(q, r.rrs)

Inv_Gen == PrintT(<<"GENLOCAL", ToJson([root |-> SetToSeq(root), auth |-> SetToSeq(auth), cache |-> SetToSeq(cache)])>>)
=============================================================================
