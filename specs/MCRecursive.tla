----------------------------- MODULE MCRecursive -----------------------------
(***************************************************************************)
(* Exhaustive exploration of the recursive resolver (module Recursive) in  *)
(* ONE universe given by the driver (the same JSON a scenario of the real  *)
(* resolver carries: universe, local zones, protocol, questions): every    *)
(* order of candidate name servers and addresses, every sequence of up to  *)
(* MaxAsk client questions sharing the cache, up to MaxFaults failed       *)
(* transport attempts placed anywhere, up to MaxForget cache records lost  *)
(* at any moment.                                                          *)
(*                                                                         *)
(*   C07  Inv_C07_Truth     a finished, fault-free resolution returns what *)
(*                          the hierarchy holds (alias chain then final    *)
(*                          record set, or empty answer with the SOA)      *)
(*        Act_C07_Closer    referrals strictly closer                      *)
(*   C08  Inv_C08_Stack     question stack bounded, no repeats             *)
(*        Live_C08_Ends     every resolution ends whatever fails           *)
(*        Inv_C08_Supplied  nothing returned that nobody supplied          *)
(*   C18  Inv_C18_Family    address family and lookup order                *)
(*   C01/C10 on the way     Inv_C01_Local, Inv_C10_Chain                   *)
(***************************************************************************)
EXTENDS Recursive, Universe, Json, IOUtils, TLC

CONSTANTS MaxAsk, MaxFaults, MaxForget

ZoneOf(zj) ==
    LET min == IF zj.auth THEN zj.soa.ttl ELSE 0
        base == [apex |-> zj.apex, auth |-> zj.auth, min |-> min, soa |-> zj.soa,
                 recs |-> IF zj.auth THEN {zj.soa} ELSE {}]
    IN [base EXCEPT !.recs = @ \cup { [r EXCEPT !.ttl = MaxOf(r.ttl, min)]
                                        : r \in { x \in SeqRange(zj.recs) : x.type # "SOA" } }]

Cfg == ndJsonDeserialize(IOEnv.CONFIG)[1]
U == [zones |-> { ZoneOf(Cfg.universe.zones[i]) : i \in DOMAIN Cfg.universe.zones },
      servers |-> { [addr |-> s.addr, v |-> s.v, apexes |-> SeqRange(s.apexes)] : s \in SeqRange(Cfg.universe.servers) }]
LocalZones == { ZoneOf(Cfg.zones[i]) : i \in DOMAIN Cfg.zones }
ProtocolCfg == Cfg.protocol
Questions == { [name |-> q.name, type |-> q.type] : q \in SeqRange(Cfg.questions) }
ExpectTruth == Cfg.expect_truth

VARIABLES asked, faults, qfaults, forgets,
          qex      \* upstream exchanges of the current question so far (0, 1, 2 = two or more)
vars == <<env, now, cache, stack, ret, cur, asked, faults, qfaults, forgets, qex>>

Init ==
    /\ env = [local |-> LocalZones, protocol |-> ProtocolCfg, mode |-> Cfg.mode, forwarder |-> "10.9.9.9"]
    /\ now = 0 /\ cache = {} /\ stack = <<>> /\ ret = NoRet /\ cur = NoQ
    /\ asked = 0 /\ faults = 0 /\ qfaults = 0 /\ forgets = 0 /\ qex = 0

AskStep ==
    /\ asked < MaxAsk
    /\ \E q \in Questions : Ask(q)
    /\ asked' = asked + 1 /\ qfaults' = 0 /\ qex' = 0 /\ UNCHANGED <<faults, forgets>>

InternalStep == Internal /\ UNCHANGED <<asked, faults, qfaults, forgets, qex>>

\* the upstream: the universe's server at that address answers, or the attempt fails
ExchangeStep ==
    /\ stack # <<>> /\ Top.kind \in {"R", "F"} /\ Top.pc \in {"udp", "tcp"}
    /\ \/ /\ Exchange(Top.pc = "tcp", TRUE,
                      IF Top.kind = "F" THEN FwdReply(U, Top.q) ELSE AuthReply(U, Top.ip, Top.q), now)
          /\ UNCHANGED <<faults, qfaults>>
       \/ /\ faults < MaxFaults
          /\ Exchange(Top.pc = "tcp", FALSE, Refused, now)
          /\ faults' = faults + 1 /\ qfaults' = qfaults + 1
    /\ qex' = IF qex < 2 THEN qex + 1 ELSE 2
    /\ UNCHANGED <<asked, forgets>>

ForgetStep ==
    /\ forgets < MaxForget
    /\ \/ \E r \in cache : Forget(r.name, r.type)
       \/ ForgetAddrs
    /\ forgets' = forgets + 1 /\ UNCHANGED <<asked, faults, qfaults, qex>>

Next == (AskStep \/ InternalStep \/ ExchangeStep \/ ForgetStep) /\ UNCHANGED <<env, now>>
Spec == Init /\ [][Next]_vars /\ WF_vars(Next)

-----------------------------------------------------------------------------
KeyOf(rr) == <<rr.name, rr.type, rr.data>>

Inv_C07_Truth ==
    (Finished /\ qfaults = 0 /\ ExpectTruth) =>
        LET t == Truth(U, cur) IN
        t.ok =>
          /\ ret.ok
          /\ ret.res.kind = "NonAuthoritative"
          /\ { KeyOf(x) : x \in SeqRange(ret.res.rrs) } = { KeyOf(x) : x \in SeqRange(t.rrs) }
          /\ Len(ret.res.rrs) = Len(t.rrs)
          /\ ChainOk(cur, ret.res.rrs)
          \* (forwarding passes the SOA of a negative answer on only when the answer section is empty: behind an
          \* alias it is dropped - observation O2 in DESIGN.md; C07 is stated for recursive resolution)
          /\ (t.negative /\ (env.mode = "recursive" \/ t.rrs = <<>>)) => KeyOf(ret.res.soa) = KeyOf(t.soa)

\* C01 in recursive / forwarding mode: whatever the upstream says and whatever is cached, local data wins
\* (configurations with authoritative local zones and overrides next to the hints; the universes given to this
\* invariant hold no alias INTO a locally owned name - that is known finding F13)
Inv_C01_Local ==
    Finished =>
        LET res == IF ret.ok THEN ret.res ELSE Res("Err", <<>>, NoRR, ret.res.err) IN
        /\ AuthOwns(Local, cur, res, qex)
        /\ Override(Local, cur, res, qex)
        /\ Provenance(Local, res)
        /\ NameErrorOnlyAuth(Local, cur, res)
        /\ ChainEndOwned(Local, cur, res)

\* ... and no upstream server is asked about a name an authoritative local zone owns
Inv_C01_NotAsked ==
    \A i \in DOMAIN stack :
        (stack[i].kind \in {"R", "F"} /\ stack[i].pc \in {"udp", "tcp"}) => AskedUpstreamOK(Local, stack[i].q.name, stack[i].q.type)

\* anti-vacuity: which code locations and which outcomes the exploration reached (the driver demands all of them)
Inv_Witness ==
    /\ stack # <<>> => PrintT(<<"PC", Top.kind, Top.pc, Top.locally>>)
    /\ ret.has => PrintT(<<"OUT", ret.ok, ret.res.kind, ret.res.err>>)

Act_C07_Closer == [][CloserStep]_vars

Inv_C08_Stack == StackBounded /\ Len(stack) <= 2 * Limit + 2

\* everything returned was supplied by the universe or the local zones (owner names of wildcard syntheses aside)
Inv_C08_Supplied ==
    (Finished /\ ret.ok) =>
        \A i \in DOMAIN ret.res.rrs :
            \E z \in U.zones \cup LocalZones : \E x \in z.recs :
                x.type = ret.res.rrs[i].type /\ x.data = ret.res.rrs[i].data

Live_C08_Ends == <>[](stack = <<>> /\ asked = MaxAsk)

\* C18 ranges over configurations and questions, not over histories in which the cache loses records or exchanges
\* fail: with such losses (and fix F15), or when the look-up of the preferred address failed and glue brought it in
\* afterwards, a name server can be contacted at its other-family address although the cache has meanwhile
\* re-learnt the preferred one, because the look-up of the preferred address is refused as a duplicate of the
\* client's own question (observation O1 in DESIGN.md).  The invariant is asserted where the property is stated.
Inv_C18_Family == (forgets = 0 /\ faults = 0) => FamilyOK

Inv_C10_Chain == (Finished /\ ret.ok /\ ret.res.kind = "NonAuthoritative") => ChainOk(cur, ret.res.rrs)
=============================================================================
