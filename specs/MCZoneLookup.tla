---------------------------- MODULE MCZoneLookup ----------------------------
(* Exhaustive small-scope check of C02: code-shaped lookup = RFC 1034 meaning *)
(* for every zone built from the record universe and every question.          *)
EXTENDS ZoneLookup, Json, SequencesExt

CONSTANTS MaxRecs,      \* zones of at most this many records
          GenRecs,      \* zones of at most this many records are printed for replay
          Apexes,       \* set of [apex, auth]
          Owners,       \* owner names relative to the apex
          Types         \* record types of the universe

VARIABLE zone
vars == <<zone>>

Labels == {"a", "b"}
RelNames == { <<>> } \cup { <<x>> : x \in Labels } \cup { <<x, y>> : x, y \in Labels }

Data == [ A |-> {[d |-> "10.0.0.1", t |-> <<>>], [d |-> "10.0.0.2", t |-> <<>>]},
          NS |-> {[d |-> "ns.x.", t |-> <<"ns", "x">>]},
          CNAME |-> {[d |-> "c1.x.", t |-> <<"c1", "x">>], [d |-> "b.a.", t |-> <<"b", "a">>]},
          TXT |-> {[d |-> "x00", t |-> <<>>]},
          MX |-> {[d |-> "10 m.x.", t |-> <<"m", "x">>]} ]

Recs(apex) ==
    UNION { { [name |-> rel \o apex, wild |-> w, type |-> ty, data |-> dt.d, target |-> dt.t, ttl |-> 300]
                : rel \in Owners, w \in BOOLEAN, dt \in Data[ty] } : ty \in Types }

ApexesQuick == { [apex |-> <<>>, auth |-> FALSE], [apex |-> <<"z">>, auth |-> TRUE] }
OwnersQuick == { <<>>, <<"a">>, <<"b">>, <<"b", "a">> }
OwnersAll == RelNames
TypesQuick == {"A", "NS", "CNAME"}
TypesAll == DOMAIN Data
ApexesAll == ApexesQuick \cup { [apex |-> <<>>, auth |-> TRUE] }

SoaOf(apex) == [name |-> apex, wild |-> FALSE, type |-> "SOA",
                data |-> "m. r. 1 2 3 4 600", target |-> <<>>, ttl |-> 600]

EmptyZone(a) ==
    IF a.auth
    THEN [apex |-> a.apex, auth |-> TRUE, min |-> 600, soa |-> SoaOf(a.apex), recs |-> {SoaOf(a.apex)}]
    ELSE [apex |-> a.apex, auth |-> FALSE, min |-> 0,
          soa |-> [name |-> <<>>, wild |-> FALSE, type |-> "NONE", data |-> "", target |-> <<>>, ttl |-> 0],
          recs |-> {}]

NRecs(z) == Cardinality({ r \in z.recs : r.type # "SOA" })

Init == zone \in { EmptyZone(a) : a \in Apexes }

Next == /\ NRecs(zone) < MaxRecs
        /\ \E r \in Recs(zone.apex) : zone' = ZoneInsert(zone, r)
        /\ zone' # zone

Spec == Init /\ [][Next]_vars

QNames(z) == { rel \o z.apex : rel \in RelNames \cup { <<x, y, w>> : x, y, w \in Labels } }
QTypes == Types \cup {"SOA", "AAAA", "ANY", "AXFR"}

Inv_C02_Equiv ==
    D1Free(zone) =>
        \A n \in QNames(zone), t \in QTypes : ZoneResolve(zone, n, t) \in Rfc1034(zone, n, t)

\* every record returned is one the zone holds (TTL and data unchanged), owner
\* rewritten only to the query name / the delegated name
Inv_C02_Owned ==
    \A n \in QNames(zone), t \in QTypes :
        \A rr \in ZoneResolve(zone, n, t).rrs :
            \E r \in zone.recs : r.type = rr.type /\ r.data = rr.data /\ r.ttl = rr.ttl
                                 /\ r.target = rr.target
                                 /\ (rr.name = n \/ rr.name = r.name \/ r.wild)

\* GEN: print each small zone once, for replay into the real Zone
GenZone == [apex |-> zone.apex, auth |-> zone.auth, soa |-> zone.soa,
            recs |-> SetToSeq(zone.recs)]
Inv_Gen == NRecs(zone) <= GenRecs => PrintT(<<"GENZONE", ToJson(GenZone)>>)

=============================================================================
