SPECIFICATION Spec
CONSTANTS
  PtrLimit = 16384
  BuggyF2 = FALSE
POSTCONDITION AllConsumed
CHECK_DEADLOCK FALSE
