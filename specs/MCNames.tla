------------------------------- MODULE MCNames -------------------------------
(* Small-scope exploration for C16: label-length vectors around the 63 / 255  *)
(* limits in several character classes.  Checks the name specification against *)
(* itself (text round trip, join, suffix) and against the wire specification,  *)
(* and prints constructor calls for replay into the real code (GEN).           *)
EXTENDS NameOctets, Json, TLC

CONSTANTS MaxLabels, Lens, Classes

W == INSTANCE Wire WITH PtrLimit <- 16384, BuggyF2 <- FALSE

VARIABLES lens, cls
vars == <<lens, cls>>

Ch(c, i) == CASE c = "lower" -> 97 + (i % 26)
              [] c = "upper" -> 65 + (i % 26)
              [] c = "digit" -> 48 + (i % 10)
              [] c = "high"  -> 200
              [] c = "mixed" -> IF i % 2 = 0 THEN 66 + (i % 20) ELSE 233
              [] c = "utf8"  -> IF i % 2 = 1 THEN 195 ELSE 137     \* C3 89 = U+00C9

Label(c, k) == [i \in 1..k |-> IF c = "utf8" /\ i = k /\ k % 2 = 1 THEN 122 ELSE Ch(c, i)]
NameOf(ls, c) == [i \in 1..(Len(ls) + 1) |-> IF i <= Len(ls) THEN Label(c, ls[i]) ELSE <<>>]

Init == lens = <<>> /\ cls \in Classes
Next == /\ Len(lens) < MaxLabels
        /\ \E k \in Lens : lens' = Append(lens, k)
        /\ UNCHANGED cls
Spec == Init /\ [][Next]_vars

N == NameOf(lens, cls)
Text(c) == c \in {"lower", "upper", "digit", "utf8"}    \* classes that form valid UTF-8 text

Inv_C16_Text ==
    (WellFormed(N) /\ IsAsciiNoDot(N)) => FromDotted(ToDotted(N)) = Name(LowerName(N))

Inv_C16_Limits ==
    LET r == FromLabels(N) IN
    /\ r.ok = ((\A i \in DOMAIN lens : lens[i] <= 63) /\ EncodedLen(N) <= 255)
    /\ r.ok => WellFormed(r.name)

Inv_C16_Join ==
    \A k \in 0..Len(lens) :
        LET a == Append(SubSeq(N, 1, k), <<>>)
            b == SubSeq(N, k + 1, Len(N))
        IN (WellFormed(a) /\ WellFormed(b)) =>
              LET r == MakeSubdomain(a, b) IN
              /\ r.ok = WellFormed(N)
              /\ r.ok => r.name = LowerName(N) /\ IsSubdomain(r.name, LowerName(b))

\* the wire codec and the name specification agree on uncompressed encodings
Inv_C16_Wire ==
    LET flat == W!FlatLabels(SubSeq(N, 1, Len(N) - 1))
        d == W!NameAt(flat, 0)
    IN /\ d.ok = WellFormed(N)
       /\ d.ok => /\ Append(d.labels, <<>>) = LowerName(N)
                  /\ d.len = EncodedLen(N)
                  /\ d.next = Len(flat)

Cases ==
    {[op |-> "from_labels", labels |-> N], [op |-> "from_labels", labels |-> SubSeq(N, 1, Len(N) - 1)]}
    \cup (IF Text(cls)
          THEN {[op |-> "from_dotted", s |-> ToDotted(N)],
                [op |-> "from_dotted", s |-> SubSeq(ToDotted(N), 1, Len(ToDotted(N)) - 1)],
                [op |-> "from_dotted", s |-> ToDotted(N) \o <<Dot>>]}
          ELSE {})
    \cup UNION { LET a == Append(SubSeq(N, 1, k), <<>>)
                     b == SubSeq(N, k + 1, Len(N))
                 IN IF WellFormed(a) /\ WellFormed(b)
                    THEN {[op |-> "make_subdomain", a |-> a, b |-> b],
                          [op |-> "is_subdomain", a |-> a, b |-> b]}
                         \cup (IF WellFormed(N)
                               THEN {[op |-> "is_subdomain", a |-> LowerName(N), b |-> LowerName(b)]}
                               ELSE {})
                         \cup (IF Text(cls) /\ k >= 1
                               THEN {[op |-> "from_relative", origin |-> b,
                                      s |-> SubSeq(ToDotted(a), 1, Len(ToDotted(a)) - 1)],
                                     [op |-> "from_relative", origin |-> b, s |-> ToDotted(a)]}
                               ELSE {})
                    ELSE {}
               : k \in 0..Len(lens) }

Inv_Gen == \A c \in Cases : PrintT(<<"GENNAME", ToJson(c)>>)
=============================================================================
