SPECIFICATION Spec
CONSTANTS BuggyHosts = FALSE
POSTCONDITION AllConsumed
CHECK_DEADLOCK FALSE
