----------------------------- MODULE LocalResolve -----------------------------
(***************************************************************************)
(* Local resolution: zones first, then the cache                           *)
(* (crates/dns-resolver/src/local.rs, util/types.rs).                      *)
(*                                                                         *)
(*  ResolveLocal(zs, cache, q, stack) - CODE-SHAPED: the recursion of       *)
(*      resolve_local with its question stack (recursion limit, duplicate  *)
(*      question), the four zone-result arms, the cache and cached-CNAME   *)
(*      follow, the prioritising merge.                                    *)
(*  Declarative properties of a final result (C01, C10) are stated on what  *)
(*  a caller sees and hold for every resolver mode: AuthOwns, Override,    *)
(*  Provenance, NameErrorOnlyAuth, ChainOk.                                *)
(*                                                                         *)
(* A question is [name, type].  The cache, during one resolution, is a set *)
(* of records [name, type, data, target, ttl] with ttl >= 1.               *)
(* Record sequences keep the order the code builds (alias chain first);    *)
(* the order INSIDE one record set is unspecified (hash maps).             *)
(***************************************************************************)
EXTENDS ZoneLookup, SequencesExt

CONSTANT Limit          \* recursion limit (32 in the code)

NoRR == [name |-> <<>>, type |-> "NONE", data |-> "", target |-> <<>>, ttl |-> 0]

AsSeq(S) == SetToSeq(S)
RangeOf(s) == { s[i] : i \in DOMAIN s }

CacheGet(cache, n, t) == { r \in cache : r.name = n /\ QTypeMatches(r.type, t) }

\* prioritising_merge: records of `new` whose (name, type) does not occur in `prio`
PrioMerge(prio, new) ==
    LET seen == { <<prio[i].name, prio[i].type>> : i \in DOMAIN prio }
    IN prio \o SelectSeq(new, LAMBDA r : <<r.name, r.type>> \notin seen)

SoaRR(z) == RR(z.soa, z.apex)

LR(kind, rk, rrs, soa, cq, dname, hosts, err) ==
    [kind |-> kind, rk |-> rk, rrs |-> rrs, soa |-> soa, cq |-> cq, dname |-> dname, hosts |-> hosts, err |-> err]
Done(rk, rrs, soa) == LR("done", rk, rrs, soa, <<>>, <<>>, {}, "")
Partial(rrs) == LR("partial", "", rrs, NoRR, <<>>, <<>>, {}, "")
CnameLR(rrs, cq) == LR("cname", "", rrs, NoRR, cq, <<>>, {}, "")
DelegLR(rrs, soa, dname, hosts) == LR("delegation", "", rrs, soa, <<>>, dname, hosts, "")
ErrLR(e) == LR("err", "", <<>>, NoRR, <<>>, <<>>, {}, e)

RECURSIVE ResolveLocal(_, _, _, _)
ResolveLocal(zs, cache, q, stack) ==
    IF Len(stack) >= Limit THEN ErrLR("RecursionLimit")
    ELSE IF \E i \in DOMAIN stack : stack[i] = q THEN ErrLR("DuplicateQuestion")
    ELSE
    LET zsel == ZonesGet(zs, q.name)
        hasZone == zsel # {}
        z == CHOOSE x \in zsel : TRUE
        zr == ZoneResolve(z, q.name, q.type)
        sub(target) == ResolveLocal(zs, cache, [name |-> target, type |-> q.type], Append(stack, q))
        \* what the zone contributes before the cache is consulted: either a final result or records for the merge
        fromZone ==
            IF ~hasZone THEN [final |-> FALSE, res |-> ErrLR(""), rrs |-> <<>>]
            ELSE IF zr.kind = "answer"
            THEN IF z.auth THEN [final |-> TRUE, res |-> Done("Authoritative", AsSeq(zr.rrs), SoaRR(z)), rrs |-> <<>>]
                 ELSE IF q.type # "ANY" /\ zr.rrs # {}
                 THEN [final |-> TRUE, res |-> Done("NonAuthoritative", AsSeq(zr.rrs), NoRR), rrs |-> <<>>]
                 ELSE [final |-> FALSE, res |-> ErrLR(""), rrs |-> AsSeq(zr.rrs)]
            ELSE IF zr.kind = "cname"
            THEN LET head == AsSeq(zr.rrs)
                     s == sub(zr.cname)
                 IN [final |-> TRUE, rrs |-> <<>>,
                     res |-> IF s.kind = "done" /\ s.rk = "Authoritative" THEN Done("Authoritative", head \o s.rrs, s.soa)
                             ELSE IF s.kind = "done" /\ s.rk = "NameError" THEN Done("Authoritative", head, s.soa)
                             ELSE IF s.kind = "done" THEN Done("NonAuthoritative", head \o s.rrs, s.soa)
                             ELSE IF s.kind = "partial" THEN Partial(head \o s.rrs)
                             ELSE IF s.kind = "cname" THEN CnameLR(head \o s.rrs, s.cq)
                             ELSE CnameLR(head, zr.cname)]
            ELSE IF zr.kind = "delegation"
            THEN IF z.auth
                 THEN [final |-> TRUE, rrs |-> <<>>,
                       res |-> IF zr.rrs = {} THEN ErrLR("LocalDelegationMissingNS")
                               ELSE DelegLR(AsSeq(zr.rrs), SoaRR(z), (CHOOSE r \in zr.rrs : TRUE).name,
                                            { r.target : r \in zr.rrs })]
                 ELSE [final |-> FALSE, res |-> ErrLR(""), rrs |-> <<>>]
            ELSE \* name error
                 IF z.auth THEN [final |-> TRUE, res |-> Done("NameError", <<>>, SoaRR(z)), rrs |-> <<>>]
                 ELSE [final |-> FALSE, res |-> ErrLR(""), rrs |-> <<>>]
    IN IF fromZone.final THEN fromZone.res
       ELSE
       LET direct == CacheGet(cache, q.name, q.type)
           cn == CacheGet(cache, q.name, "CNAME")
           useCname == direct = {} /\ q.type # "CNAME" /\ cn # {}
           c == CHOOSE r \in cn : TRUE
           s == sub(c.target)
           fromCache == IF ~useCname THEN AsSeq(direct)
                        ELSE IF s.kind \in {"done", "partial", "cname"} THEN <<c>> \o s.rrs ELSE <<c>>
           finalName == IF ~useCname THEN <<>>
                        ELSE IF s.kind = "cname" THEN s.cq
                        ELSE IF s.kind \in {"done", "partial"} THEN <<>>
                        ELSE c.target
           hasFinal == useCname /\ s.kind \notin {"done", "partial"}
           rrs == PrioMerge(fromZone.rrs, fromCache)
       IN IF rrs = <<>> THEN ErrLR("DeadEnd")
          ELSE IF hasFinal THEN CnameLR(rrs, finalName)
          ELSE IF q.type = "ANY" THEN Partial(rrs)
          ELSE Done("NonAuthoritative", rrs, NoRR)

\* From<LocalResolutionResult> for ResolvedRecord (authoritative-only mode): [kind, rrs, soa, err]
Res(kind, rrs, soa, err) == [kind |-> kind, rrs |-> rrs, soa |-> soa, err |-> err]
ToResolved(lr) ==
    IF lr.kind = "done" THEN Res(lr.rk, lr.rrs, lr.soa, "")
    ELSE IF lr.kind = "partial" THEN Res("NonAuthoritative", lr.rrs, NoRR, "")
    ELSE IF lr.kind = "delegation" THEN Res("Authoritative", lr.rrs, lr.soa, "")      \* deviation D3 (finding F6)
    ELSE IF lr.kind = "cname" THEN Res("NonAuthoritative", lr.rrs, NoRR, "")
    ELSE Res("Err", <<>>, NoRR, lr.err)

-----------------------------------------------------------------------------
(* Declarative properties of a final result res = [kind, rrs, soa, err]     *)

ZoneOfName(zs, n) == ZonesGet(zs, n)        \* {} or one zone

\* the zone owns the name for that type: not at or beneath one of its delegation points
\* (an NS question at the delegation point itself is answered directly)
Owned(z, n, t) ==
    \A c \in Cuts(z) : ~StrictlyBeneath(n, c) /\ ~(n = c /\ t # "NS")

\* a record the zone z would present for owner n (plain, or synthesised from the wildcard at the closest encloser)
FromZone(z, rr) ==
    \/ \E r \in Plain(z, rr.name) : RR(r, rr.name) = rr
    \/ LET e == Closest(z, rr.name) IN e # rr.name /\ \E r \in Wild(z, e) : RR(r, rr.name) = rr

\* C01: everything said about a name owned by an authoritative zone comes from that zone
Provenance(zs, res) ==
    \A i \in DOMAIN res.rrs :
        LET rr == res.rrs[i]
            zsel == ZoneOfName(zs, rr.name)
        IN (zsel # {} /\ (CHOOSE z \in zsel : TRUE).auth /\ Owned(CHOOSE z \in zsel : TRUE, rr.name, rr.type)
            /\ D1Free(CHOOSE z \in zsel : TRUE))
           => FromZone(CHOOSE z \in zsel : TRUE, rr)

\* C01: the most specific zone is authoritative and answers the question itself (no alias, no referral)
AuthOwns(zs, q, res, nExchanges) ==
    LET zsel == ZoneOfName(zs, q.name) IN
    (zsel # {} /\ (CHOOSE z \in zsel : TRUE).auth /\ D1Free(CHOOSE z \in zsel : TRUE)) =>
        LET z == CHOOSE x \in zsel : TRUE
            E == Rfc1034(z, q.name, q.type)
        IN /\ (\E e \in E : e.kind = "answer") =>
                  /\ res.kind = "Authoritative" /\ res.soa = SoaRR(z) /\ nExchanges = 0
                  /\ \E e \in E : RangeOf(res.rrs) = e.rrs /\ Len(res.rrs) = Cardinality(e.rrs)
           /\ (\E e \in E : e.kind = "nameerror") =>
                  res.kind = "NameError" /\ res.soa = SoaRR(z) /\ nExchanges = 0
           /\ (\E e \in E : e.kind = "cname") =>
                  /\ res.kind \in {"Authoritative", "NonAuthoritative", "Err"}
                  /\ res.kind # "Err" => (res.rrs # <<>> /\ \E e \in E : res.rrs[1] \in e.rrs)

\* C01: a non-authoritative zone (hosts file, override) holding records of the asked name and type
Override(zs, q, res, nExchanges) ==
    LET zsel == ZoneOfName(zs, q.name) IN
    (zsel # {} /\ ~(CHOOSE z \in zsel : TRUE).auth /\ D1Free(CHOOSE z \in zsel : TRUE)) =>
        LET z == CHOOSE x \in zsel : TRUE
            E == Rfc1034(z, q.name, q.type)
        IN \A e \in E : (e.kind = "answer" /\ e.rrs # {}) =>
              IF q.type # "ANY"
              THEN /\ res.kind = "NonAuthoritative" /\ nExchanges = 0
                   /\ RangeOf(res.rrs) = e.rrs /\ Len(res.rrs) = Cardinality(e.rrs)
              ELSE \* for ANY the zone's records of each type suppress cached / upstream ones of that type
                   res.kind # "Err" =>
                     \A t \in { r.type : r \in e.rrs } :
                        { r \in RangeOf(res.rrs) : r.name = q.name /\ r.type = t } = { r \in e.rrs : r.type = t }

\* C01: a name error is only ever reported on the word of an authoritative local zone
NameErrorOnlyAuth(zs, q, res) ==
    res.kind = "NameError" =>
        \E z \in zs : z.auth /\ res.soa = SoaRR(z)
                      /\ \E n \in { q.name } \cup { res.rrs[i].target : i \in DOMAIN res.rrs } :
                            ZoneOfName(zs, n) = {z} /\ NameError \in Rfc1034(z, n, q.type)

\* C01: an alias chain that ENDS at a name owned by an authoritative local zone: nothing from a LESS specific zone
\* is used for that name - in particular an SOA carried by the result (the authority of a negative or authoritative
\* answer) is the SOA of the zone that owns the final name, not of the zone the chain started in.  (What records are
\* said to exist at that name is Provenance; chains cut short by the recursion limit are left alone.)
FinalName(q, rrs) ==
    LET cn == SelectSeq(rrs, LAMBDA r : r.type = "CNAME") IN
    IF cn = <<>> THEN q.name ELSE cn[Len(cn)].target

ChainEndOwned(zs, q, res) ==
    (q.type \notin {"CNAME", "ANY"} /\ res.kind \in {"Authoritative", "NonAuthoritative", "NameError"} /\ res.soa # NoRR) =>
        LET T == FinalName(q, res.rrs)
            zsel == ZoneOfName(zs, T)
            nAlias == Cardinality({ i \in DOMAIN res.rrs : res.rrs[i].type = "CNAME" })
        IN (T # q.name /\ nAlias + 2 < Limit /\ zsel # {} /\ (CHOOSE z \in zsel : TRUE).auth
            /\ D1Free(CHOOSE z \in zsel : TRUE) /\ Owned(CHOOSE z \in zsel : TRUE, T, q.type)
            /\ ~\E i \in DOMAIN res.rrs : res.rrs[i].type = "CNAME" /\ res.rrs[i].name = T) =>
              res.soa = SoaRR(CHOOSE z \in zsel : TRUE)

\* C01: no upstream server is asked about a name an authoritative local zone owns
AskedUpstreamOK(zs, qname, qtype) ==
    LET zsel == ZoneOfName(zs, qname) IN
    ~(zsel # {} /\ (CHOOSE z \in zsel : TRUE).auth /\ D1Free(CHOOSE z \in zsel : TRUE)
      /\ Owned(CHOOSE z \in zsel : TRUE, qname, qtype))

\* C10: alias chain in order from the question name, then only records of the asked type at the final target
ChainOk(q, rrs) ==
    q.type \notin {"CNAME", "ANY"} =>
        LET k == Cardinality({ i \in DOMAIN rrs : rrs[i].type = "CNAME" }) IN
        /\ \A i \in 1..k : rrs[i].type = "CNAME"                                   \* the aliases come first
        /\ k >= 1 => rrs[1].name = q.name
        /\ \A i \in 2..k : rrs[i].name = rrs[i - 1].target                         \* each owner is the previous target
        /\ \A i, j \in 1..k : rrs[i].name = rrs[j].name => i = j                   \* no alias followed twice
        /\ \A i \in (k + 1)..Len(rrs) :
              /\ rrs[i].type = q.type
              /\ rrs[i].name = (IF k = 0 THEN q.name ELSE rrs[k].target)
        /\ \A i, j \in DOMAIN rrs : rrs[i] = rrs[j] => i = j                       \* no record twice

=============================================================================
