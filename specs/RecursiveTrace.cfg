SPECIFICATION Spec
CONSTANTS
  Limit = 32
  BuggyF1 = FALSE
  BuggyF3 = FALSE
  BuggyF4 = FALSE
  BuggyF15 = FALSE
INVARIANTS Inv_Accept Inv_C08_Stack Inv_C18_Family
PROPERTIES Act_C07_Closer
CHECK_DEADLOCK FALSE
