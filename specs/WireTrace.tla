------------------------------ MODULE WireTrace ------------------------------
(* Trace validation for C03 / C04 / C16(wire): each line is one call of the   *)
(* real decoder (from_octets) or encoder (to_octets) with its input and       *)
(* result; TLC runs its own decoder (Wire!Denote) on the same octets.         *)
EXTENDS Wire, Json, IOUtils, TLC, SequencesExt

Rec == ndJsonDeserialize(IOEnv.TRACE)

VARIABLE l
vars == <<l>>

\* the real decoder's verdict agrees with the specification's
Agrees(d, res) ==
    IF d.ok THEN res.ok /\ res.msg = d.msg
    ELSE ~res.ok /\ res.hasid = d.hasid /\ (d.hasid => res.id = d.id)

SameError(d, res) == d.ok \/ res.ok \/ res.err = d.err

NameOK(n) ==     \* C16: what comes out of the decoder is a well-formed name
    /\ \A i \in DOMAIN n : Len(n[i]) >= 1 /\ Len(n[i]) <= LabelMax
                           /\ \A k \in DOMAIN n[i] : ~(n[i][k] >= 65 /\ n[i][k] <= 90)
    /\ Len(FlatLabels(n)) <= NameMax
RRNamesOK(rr) == NameOK(rr.name) /\ \A i \in DOMAIN rr.names : NameOK(rr.names[i])
MsgNamesOK(m) ==
    /\ \A i \in DOMAIN m.questions : NameOK(m.questions[i].name)
    /\ \A i \in DOMAIN m.answers : RRNamesOK(m.answers[i])
    /\ \A i \in DOMAIN m.authority : RRNamesOK(m.authority[i])
    /\ \A i \in DOMAIN m.additional : RRNamesOK(m.additional[i])

DecodeAgrees(c, d) == Agrees(d, c.res)

DecodedNamesOK(c) == c.res.ok => MsgNamesOK(c.res.msg)

ReencodeOK(c) ==
    c.reenc.present =>
          /\ c.reenc.ok
          /\ LET d2 == Denote(c.reenc.bytes) IN
                d2.ok /\ d2.msg = c.res.msg /\ Agrees(d2, c.reenc.res)

RoundTripOK(c) ==
    /\ c.enc.ok
    /\ LET d == Denote(c.enc.bytes) IN
          /\ d.ok /\ d.msg = c.msg                 \* an independent decoder reads the original message
          /\ Agrees(d, c.enc.res)                  \* and so does the server's own decoder
          /\ PointersAfterHeader(d)

Say(ok, i, why) == IF ok THEN TRUE ELSE PrintT(<<"REJECT", i, why>>)

Check(i) ==
    LET c == Rec[i] IN
    CASE c.ev = "decode" ->
            LET d == Denote(c.bytes) IN
            /\ Say(DecodeAgrees(c, d), i, "C03")
            /\ Say(DecodedNamesOK(c), i, "C16")
            /\ Say(ReencodeOK(c), i, "C04")
            /\ IF SameError(d, c.res) THEN TRUE ELSE PrintT(<<"DRIFT", i>>)
      [] c.ev = "roundtrip" -> Say(RoundTripOK(c), i, "C04")
      [] OTHER -> Say(FALSE, i, "event")

Init == l = 0
Next == l < Len(Rec) /\ Check(l + 1) /\ l' = l + 1
Spec == Init /\ [][Next]_vars
AllConsumed == TLCGet("stats").diameter - 1 = Len(Rec)
=============================================================================
