------------------------------ MODULE ServerTrace ------------------------------
(***************************************************************************)
(* Trace validation for C09: the real resolved binary, black box.  A trace *)
(* starts with a `config` line (mode, zones, wire forms) and continues     *)
(* with one line per datagram / TCP message sent to the server: the octets *)
(* sent, the octets that came back (or none), whether the server was still *)
(* alive afterwards.  Every reply is decoded by the wire specification and *)
(* compared with Server!Expected.                                          *)
(***************************************************************************)
EXTENDS Server, Json, IOUtils, TLC

Rec == ndJsonDeserialize(IOEnv.TRACE)
VARIABLES l, cfg
vars == <<l, cfg>>

ZoneOf(zj) ==
    LET min == IF zj.auth THEN zj.soa.ttl ELSE 0
        base == [apex |-> zj.apex, auth |-> zj.auth, min |-> min, soa |-> zj.soa,
                 recs |-> IF zj.auth THEN {zj.soa} ELSE {}]
    IN [base EXCEPT !.recs = @ \cup { [r EXCEPT !.ttl = MaxOf(r.ttl, min)]
                                        : r \in { x \in Range(zj.recs) : x.type # "SOA" } }]

CfgOf(c) == [authOnly |-> c.auth_only, mode |-> c.mode, zones |-> { ZoneOf(c.zones[i]) : i \in DOMAIN c.zones }, rdmap |-> c.rdmap]

Min2(a, b) == IF a <= b THEN a ELSE b
Bit(x, mask) == (x \div mask) % 2 = 1

\* what the server gets to see of what was sent
Seen(e) == IF e.udp THEN SubSeq(e.req, 1, Min2(512, Len(e.req))) ELSE e.req

\* a TCP message shorter than its length prefix: FORMERR with the ID if two octets arrived, else nothing
ShortTcp(e) == ~e.udp /\ Len(e.req) < e.tcp_declared
ShortExpected(e) ==
    IF Len(e.req) >= 2
    THEN Rep(Hdr(e.req[1] * 256 + e.req[2], 0, FALSE, FALSE, FALSE, TRUE, 1), <<>>, {}, {}, FALSE)
    ELSE NoReply

HeaderOf(b) == [id |-> b[1] * 256 + b[2], qr |-> Bit(b[3], 128), opcode |-> (b[3] \div 8) % 16, aa |-> Bit(b[3], 4),
                tc |-> Bit(b[3], 2), rd |-> Bit(b[3], 1), ra |-> Bit(b[4], 128), rcode |-> b[4] % 16]

\* length of the message if no name were compressed: an upper bound on the length of any encoding
RECURSIVE NameLen(_)
NameLen(n) == IF n = <<>> THEN 1 ELSE 1 + Len(n[1]) + NameLen(Tail(n))
RRLen(rr) == NameLen(rr.name) + 10 + 2 * Len(rr.ints) + Len(rr.raw)
             + (IF rr.names = <<>> THEN 0 ELSE NameLen(rr.names[1]) + (IF Len(rr.names) > 1 THEN NameLen(rr.names[2]) ELSE 0))
RECURSIVE SumOver(_)
SumOver(S) == IF S = {} THEN 0 ELSE LET x == CHOOSE y \in S : TRUE IN RRLen(x) + SumOver(S \ {x})
MaxLen(x) == 12 + (IF x.questions = <<>> THEN 0 ELSE NameLen(x.questions[1].name) + 4) + SumOver(x.answers) + SumOver(x.authority)

ExchangeOK(e) ==
    LET x == IF ShortTcp(e) THEN ShortExpected(e) ELSE Expected(Seen(e), cfg) IN
    /\ e.alive                                                    \* the server keeps serving
    /\ e.reply.extra = 0                                          \* at most one reply
    /\ IF ~x.reply THEN ~e.reply.present
       ELSE /\ e.reply.present
            /\ Len(e.reply.bytes) >= 12
            /\ LET b == e.reply.bytes
                   h == HeaderOf(b)
                   resolved == x.hdr.opcode = 0 /\ x.hdr.rcode \in {0, 2, 3}      \* the reply of a resolution
               IN \* framing
                  /\ e.udp => Len(b) <= 512
                  /\ ~e.udp => e.reply.prefix = Len(b)
                  /\ h.id = x.hdr.id /\ h.qr /\ h.opcode = x.hdr.opcode /\ h.rd = x.hdr.rd /\ h.ra = x.hdr.ra
                  /\ IF h.tc
                     THEN \* cut short: exactly at the limit, and only a message that can exceed the limit
                          /\ Len(b) = (IF e.udp THEN 512 ELSE 65535)
                          /\ cfg.authOnly => MaxLen(x) > (IF e.udp THEN 512 ELSE 65535)
                     ELSE LET d == W!Denote(b) IN
                          /\ d.ok /\ d.used = Len(b)
                          /\ d.msg.questions = x.questions
                          /\ d.msg.additional = <<>>
                          /\ IF cfg.authOnly \/ ~resolved
                             THEN /\ h.rcode = x.hdr.rcode /\ h.aa = x.hdr.aa
                                  /\ Range(d.msg.answers) = x.answers /\ Len(d.msg.answers) = Cardinality(x.answers)
                                  /\ Range(d.msg.authority) = x.authority /\ Len(d.msg.authority) = Cardinality(x.authority)
                             ELSE h.rcode \in {0, 2, 3}
                          /\ (resolved /\ x.questions # <<>>) =>
                                ChainOrderOK(x.questions[1].name, d.msg.answers)

\* the clause F6 violates: an answer section holds only records for the question name or its alias chain
OwnersOK(e) ==
    LET x == IF ShortTcp(e) THEN ShortExpected(e) ELSE Expected(Seen(e), cfg) IN
    (x.reply /\ e.reply.present /\ ~HeaderOf(e.reply.bytes).tc /\ x.questions # <<>>) =>
        LET d == W!Denote(e.reply.bytes) IN
        d.ok => AnswerOwnersOK(x.questions[1].name, Range(d.msg.answers))

IsReferral(e) ==
    LET x == IF ShortTcp(e) THEN ShortExpected(e) ELSE Expected(Seen(e), cfg) IN x.reply /\ x.referral

Init == l = 0 /\ cfg = [authOnly |-> TRUE, mode |-> "", zones |-> {}, rdmap |-> <<>>]
Next ==
    /\ l < Len(Rec)
    /\ l' = l + 1
    /\ LET e == Rec[l + 1] IN
       IF e.ev = "config" THEN cfg' = CfgOf(e)
       ELSE /\ cfg' = cfg
            /\ IF ExchangeOK(e) THEN TRUE ELSE PrintT(<<"REJECT", l + 1, "C09">>)
            /\ IF OwnersOK(e) THEN TRUE
               ELSE PrintT(<<"REJECT", l + 1, IF IsReferral(e) THEN "C09:F6" ELSE "C09">>)
Spec == Init /\ [][Next]_vars
AllConsumed == TLCGet("stats").diameter - 1 = Len(Rec)
=============================================================================
