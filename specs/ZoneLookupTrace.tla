--------------------------- MODULE ZoneLookupTrace ---------------------------
(* Trace validation for C02: every line is one real Zone (built through the  *)
(* insertion API from `zone`), its dump, and the observed result of          *)
(* Zone::resolve for a list of questions.  TLC evaluates the declarative     *)
(* meaning Rfc1034 on the same zone and accepts or rejects each observation. *)
EXTENDS ZoneLookup, Json, IOUtils, SequencesExt

Rec == ndJsonDeserialize(IOEnv.TRACE)

VARIABLE l
vars == <<l>>


\* the zone a JSON description denotes: SOA record at the apex with TTL =
\* minimum; every other record inserted with its TTL raised to the minimum
ZoneOf(zj) ==
    LET min == IF zj.auth THEN zj.soa.ttl ELSE 0
        base == [apex |-> zj.apex, auth |-> zj.auth, min |-> min, soa |-> zj.soa,
                 recs |-> IF zj.auth THEN {zj.soa} ELSE {}]
    IN [base EXCEPT !.recs = @ \cup { [r EXCEPT !.ttl = MaxOf(r.ttl, min)]
                                        : r \in { x \in Range(zj.recs) : x.type # "SOA" } }]

\* the real zone holds exactly the records the description denotes
DumpOK(c) == LET z == ZoneOf(c.zone) IN
    /\ c.dump.apex = z.apex
    /\ c.dump.auth = z.auth
    /\ Range(c.dump.recs) = z.recs
    /\ Len(c.dump.recs) = Cardinality(z.recs)
    /\ z.auth => c.dump.soa = z.soa

\* after merges (a history of Zone::merge calls) the zone is taken as the real one presents it (all_records): what
\* merging must produce is C12's subject; C02 is that lookups return the records the zone HOLDS, with their TTLs
ZoneHeld(c) ==
    IF c.merged
    THEN [apex |-> c.dump.apex, auth |-> c.dump.auth, min |-> 0, soa |-> c.dump.soa, recs |-> Range(c.dump.recs)]
    ELSE ZoneOf(c.zone)

Norm(res) == [kind |-> res.kind, rrs |-> Range(res.rrs), cname |-> res.cname]

Owned(z, n, res) ==
    \A rr \in Range(res.rrs) :
        \E r \in z.recs : /\ r.type = rr.type /\ r.data = rr.data /\ r.ttl = rr.ttl
                          /\ r.target = rr.target
                          /\ (rr.name = n \/ rr.name = r.name \/ r.wild)

ResOK(z, x) ==
    IF IsSubdomain(x.q.name, z.apex)
    THEN /\ x.via_zones_same
         /\ Len(x.res.rrs) = Cardinality(Range(x.res.rrs))         \* no record twice
         /\ Owned(z, x.q.name, x.res)
         /\ D1Free(z) => Norm(x.res) \in Rfc1034(z, x.q.name, x.q.type)
    ELSE x.res.kind = "none"

\* agreement with the code-shaped algorithm (reported as drift, not as a violation)
SameUpToCname(a, b) == a.kind = b.kind /\ (a.kind # "cname" => a = b)
DriftFree(z, x) ==
    IsSubdomain(x.q.name, z.apex) => SameUpToCname(Norm(x.res), ZoneResolve(z, x.q.name, x.q.type))

Check(i) ==
    LET c == Rec[i] IN
    IF c.ev # "zone_resolve"
    THEN PrintT(<<"REJECT", ToJson([line |-> i, why |-> c.ev, qs |-> <<>>])>>)
    ELSE LET z == ZoneHeld(c)
             bad == { k \in DOMAIN c.results : ~ResOK(z, c.results[k]) }
             drift == { k \in DOMAIN c.results : ~DriftFree(z, c.results[k]) }
             dumpOK == c.merged \/ DumpOK(c)
         IN /\ IF bad = {} /\ dumpOK THEN TRUE
               ELSE PrintT(<<"REJECT", ToJson([line |-> i, why |-> IF dumpOK THEN "result" ELSE "dump",
                                                qs |-> SetToSeq(bad)])>>)
            /\ IF drift = {} THEN TRUE
               ELSE PrintT(<<"DRIFT", ToJson([line |-> i, qs |-> SetToSeq(drift)])>>)

Init == l = 0
Next == l < Len(Rec) /\ Check(l + 1) /\ l' = l + 1
Spec == Init /\ [][Next]_vars

AllConsumed == TLCGet("stats").diameter - 1 = Len(Rec)
=============================================================================
