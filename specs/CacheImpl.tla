------------------------------ MODULE CacheImpl ------------------------------
(***************************************************************************)
(* Code-shaped model of crates/dns-resolver/src/cache.rs                   *)
(* (PartitionedCache: upsert, get, remove_expired(_step), prune,           *)
(* remove_least_recently_used), keeping the intermediate state the code    *)
(* keeps: per-name partition with last_read, next_expiry, size and the     *)
(* per-type tuple vectors (a type key survives with an empty vector after  *)
(* its tuples expired, exactly as in the code), and current_size.          *)
(* The two priority queues always carry the partitions' last_read /        *)
(* next_expiry as priorities, so they are read off `parts`; a pop breaks   *)
(* ties nondeterministically.                                              *)
(*                                                                         *)
(* Time is absolute, in ms, and bounded (Tick disabled at Tmax): the state *)
(* space is finite while the NUMBER of operations is unbounded, so TLC     *)
(* explores every history over the scope.                                  *)
(*                                                                         *)
(* Checked: the code's own invariants (Inv_C15_...), and - as an action    *)
(* property on every transition - that each operation satisfies the        *)
(* user-level relations of module Cache (C05 and C15).                     *)
(***************************************************************************)
EXTENDS Cache, TLC, Json

CONSTANTS NameSet, TypeSet, DataSet, TtlSet, Desired, TickMs, Tmax,
          BuggyF11     \* TRUE = upsert before fix F11 (next_expiry recomputed over one type only)

VARIABLES parts, cs, now, op
vars == <<parts, cs, now, op>>
view == <<parts, cs, now>>

Min(S) == CHOOSE x \in S : \A y \in S : x <= y
SeqRange(s) == { s[i] : i \in DOMAIN s }

AllTuples(p) == UNION { SeqRange(p.recs[t]) : t \in DOMAIN p.recs }

\* abstraction function: the set of entries held
Abs(ps) == UNION { UNION { { [name |-> n, type |-> t, data |-> x.data, exp |-> x.exp]
                              : x \in SeqRange(ps[n].recs[t]) } : t \in DOMAIN ps[n].recs }
                   : n \in DOMAIN ps }
UsedOf(ps) == [n \in Names(Abs(ps)) |-> [lo |-> ps[n].lastRead, hi |-> ps[n].lastRead]]

-----------------------------------------------------------------------------
\* Vec::swap_remove(i) followed by push(new)
SwapRemovePush(s, i, new) ==
    LET n == Len(s)
        s1 == IF i = n THEN SubSeq(s, 1, n - 1)
              ELSE [k \in 1..(n - 1) |-> IF k = i THEN s[n] ELSE s[k]]
    IN Append(s1, new)

Upsert(name, type, data, ttl) ==
    LET expiry == now + ttl * 1000
        new == [data |-> data, exp |-> expiry]
    IN
    IF name \in DOMAIN parts
    THEN LET p == parts[name] IN
         IF type \in DOMAIN p.recs
         THEN LET tuples == p.recs[type]
                  dups == { i \in DOMAIN tuples : tuples[i].data = data }
              IN IF dups # {}
                 THEN LET i == Min(dups)
                          dupExp == tuples[i].exp
                          tuples2 == SwapRemovePush(tuples, i, new)
                          recs2 == [p.recs EXCEPT ![type] = tuples2]
                          scope == IF BuggyF11 THEN SeqRange(tuples2)
                                   ELSE AllTuples([p EXCEPT !.recs = recs2])
                          ne1 == IF dupExp = p.nextExpiry
                                 THEN Min({expiry} \cup { x.exp : x \in scope })
                                 ELSE p.nextExpiry
                          ne2 == IF expiry < ne1 THEN expiry ELSE ne1
                      IN /\ parts' = [parts EXCEPT ![name] =
                                         [lastRead |-> now, nextExpiry |-> ne2,
                                          size |-> (p.size - 1) + 1, recs |-> recs2]]
                         /\ cs' = (cs - 1) + 1
                 ELSE /\ parts' = [parts EXCEPT ![name] =
                                      [lastRead |-> now,
                                       nextExpiry |-> IF expiry < p.nextExpiry THEN expiry ELSE p.nextExpiry,
                                       size |-> p.size + 1,
                                       recs |-> [p.recs EXCEPT ![type] = Append(tuples, new)]]]
                      /\ cs' = cs + 1
         ELSE /\ parts' = [parts EXCEPT ![name] =
                              [lastRead |-> now,
                               nextExpiry |-> IF expiry < p.nextExpiry THEN expiry ELSE p.nextExpiry,
                               size |-> p.size + 1,
                               recs |-> [t \in DOMAIN p.recs \cup {type} |->
                                            IF t = type THEN <<new>> ELSE p.recs[t]]]]
              /\ cs' = cs + 1
    ELSE /\ parts' = [n \in DOMAIN parts \cup {name} |->
                         IF n = name
                         THEN [lastRead |-> now, nextExpiry |-> expiry, size |-> 1,
                               recs |-> [t \in {type} |-> <<new>>]]
                         ELSE parts[n]]
         /\ cs' = cs + 1

Insert(name, type, data, ttl) ==
    /\ Upsert(name, type, data, ttl)
    /\ op' = [kind |-> "insert", name |-> name, type |-> type, data |-> data, ttl |-> ttl]
    /\ UNCHANGED now

-----------------------------------------------------------------------------
\* to_rrs + retain(ttl > 0): whole seconds left, saturating at 0
TtlOf(exp) == IF exp > now THEN (exp - now) \div 1000 ELSE 0

ToRrs(name, type, tuples) ==
    LET all == [i \in DOMAIN tuples |->
                   [name |-> name, type |-> type, data |-> tuples[i].data, ttl |-> TtlOf(tuples[i].exp)]]
    IN SelectSeq(all, LAMBDA r : r.ttl > 0)

RECURSIVE Concat(_, _, _)
Concat(name, recs, types) ==
    IF types = {} THEN <<>>
    ELSE LET t == CHOOSE x \in types : TRUE
         IN ToRrs(name, t, recs[t]) \o Concat(name, recs, types \ {t})

Get(name, qtype) ==
    /\ UNCHANGED <<cs, now>>
    /\ IF name \in DOMAIN parts /\ (qtype = "ANY" \/ qtype \in DOMAIN parts[name].recs)
       THEN /\ parts' = [parts EXCEPT ![name].lastRead = now]
            /\ op' = [kind |-> "get", name |-> name, qtype |-> qtype,
                      ret |-> IF qtype = "ANY"
                              THEN Concat(name, parts[name].recs, DOMAIN parts[name].recs)
                              ELSE ToRrs(name, qtype, parts[name].recs[qtype])]
       ELSE /\ UNCHANGED parts
            /\ op' = [kind |-> "get", name |-> name, qtype |-> qtype, ret |-> <<>>]

-----------------------------------------------------------------------------
\* remove_expired_step on (ps, c): [ps, c, pruned]
ExpiredStep(ps, c) ==
    IF DOMAIN ps = {} THEN [ps |-> ps, c |-> c, pruned |-> 0]
    ELSE LET m == Min({ ps[n].nextExpiry : n \in DOMAIN ps })
             key == CHOOSE n \in DOMAIN ps : ps[n].nextExpiry = m
             p == ps[key]
         IN IF m > now THEN [ps |-> ps, c |-> c, pruned |-> 0]
            ELSE LET recs2 == [t \in DOMAIN p.recs |-> SelectSeq(p.recs[t], LAMBDA x : x.exp > now)]
                     before == Cardinality(UNION {{<<t, i>> : i \in DOMAIN p.recs[t]} : t \in DOMAIN p.recs})
                     after == Cardinality(UNION {{<<t, i>> : i \in DOMAIN recs2[t]} : t \in DOMAIN recs2})
                     pruned == before - after
                     left == UNION { SeqRange(recs2[t]) : t \in DOMAIN recs2 }
                 IN IF left # {}
                    THEN [ps |-> [ps EXCEPT ![key] = [lastRead |-> p.lastRead,
                                                       nextExpiry |-> Min({ x.exp : x \in left }),
                                                       size |-> p.size - pruned, recs |-> recs2]],
                          c |-> c - pruned, pruned |-> pruned]
                    ELSE [ps |-> [n \in DOMAIN ps \ {key} |-> ps[n]], c |-> c - pruned, pruned |-> pruned]

\* remove_expired: repeat the step until one removes nothing
RECURSIVE RemoveExpired(_, _, _)
RemoveExpired(ps, c, total) ==
    LET r == ExpiredStep(ps, c)
    IN IF r.pruned = 0 THEN [ps |-> r.ps, c |-> r.c, total |-> total]
       ELSE RemoveExpired(r.ps, r.c, total + r.pruned)

\* the LRU loop of prune: all outcomes (ties in the access queue broken either way);
\* "stuck" marks the non-terminating loop (over size with an empty queue)
RECURSIVE LruOutcomes(_, _, _)
LruOutcomes(ps, c, evicted) ==
    IF c <= Desired THEN { [ps |-> ps, c |-> c, evicted |-> evicted, stuck |-> FALSE] }
    ELSE IF DOMAIN ps = {} THEN { [ps |-> ps, c |-> c, evicted |-> evicted, stuck |-> TRUE] }
    ELSE LET m == Min({ ps[n].lastRead : n \in DOMAIN ps })
         IN UNION { LruOutcomes([k \in DOMAIN ps \ {n} |-> ps[k]], c - ps[n].size, evicted + ps[n].size)
                      : n \in { x \in DOMAIN ps : ps[x].lastRead = m } }

Prune ==
    LET over == cs > Desired
        e == RemoveExpired(parts, cs, 0)
    IN \E o \in LruOutcomes(e.ps, e.c, 0) :
         /\ parts' = o.ps
         /\ cs' = o.c
         /\ op' = [kind |-> "prune", stuck |-> o.stuck,
                   ret |-> [overflow |-> over, size |-> o.c, expired |-> e.total, evicted |-> o.evicted]]
         /\ UNCHANGED now

Tick == /\ now + TickMs <= Tmax
        /\ now' = now + TickMs
        /\ op' = [kind |-> "tick"]
        /\ UNCHANGED <<parts, cs>>

-----------------------------------------------------------------------------
Init == /\ parts = [n \in {} |-> 0]
        /\ cs = 0
        /\ now = 0
        /\ op = [kind |-> "init"]

Next == \/ \E n \in NameSet, t \in TypeSet, d \in DataSet, ttl \in TtlSet : Insert(n, t, d, ttl)
        \/ \E n \in NameSet, q \in TypeSet \cup {"ANY", "AXFR"} : Get(n, q)
        \/ Prune
        \/ Tick

Spec == Init /\ [][Next]_vars

-----------------------------------------------------------------------------
(* the code's own invariants (comments in cache.rs), part of C15           *)

Inv_C15_Counts ==
    /\ cs = Cardinality(Abs(parts))
    /\ UniqueKeys(Abs(parts))
    /\ \A n \in DOMAIN parts :
          parts[n].size = Cardinality({ e \in Abs(parts) : e.name = n })

Inv_C15_NextExpiry ==
    \A n \in DOMAIN parts :
        /\ AllTuples(parts[n]) # {}
        /\ parts[n].nextExpiry = Min({ x.exp : x \in AllTuples(parts[n]) })

Inv_C15_Terminates == op.kind = "prune" => ~op.stuck

(* refinement of the user-level relations, checked on every transition     *)
StepOK ==
    LET s == Abs(parts)  s2 == Abs(parts') IN
    CASE op'.kind = "insert" -> InsertOK(s, now, op'.name, op'.type, op'.data, op'.ttl, s2)
      [] op'.kind = "get"    -> GetOK(s, now, op'.name, op'.qtype, op'.ret, s2)
      [] op'.kind = "prune"  -> PruneOK(s, UsedOf(parts), now, Desired, op'.ret, s2)
      [] OTHER -> s2 = s

Prop_C05_C15_Refines == [][StepOK]_vars

-----------------------------------------------------------------------------
(* GEN: dump every transition of the state graph (ACTION_CONSTRAINT), so   *)
(* that the driver can walk the real cache along every edge                *)
Dump == PrintT(<<"EDGE", ToJson([from |-> view, op |-> op', to |-> view'])>>)

=============================================================================
