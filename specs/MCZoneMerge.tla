----------------------------- MODULE MCZoneMerge -----------------------------
(* C12 at small scope: every sequence of up to MaxZones zones (two apexes,    *)
(* with and without SOA, different SOA minima, wildcard and plain records,    *)
(* overlaps) and up to two hosts maps: the code-shaped load equals the union. *)
EXTENDS ZoneMerge, Json, SequencesExt

CONSTANTS MaxZones, MaxRecs

VARIABLES zseq, hseq
vars == <<zseq, hseq>>

Apexes == { <<>>, <<"z">> }
SoaRec(apex, min) == [name |-> apex, wild |-> FALSE, type |-> "SOA",
                      data |-> "m. r. 1 2 3 4 " \o (IF min = 60 THEN "60" ELSE "300"), target |-> <<>>, ttl |-> min]
Empty(apex, min) ==
    IF min = 0 THEN [apex |-> apex, auth |-> FALSE, min |-> 0, soa |-> NoSoa, recs |-> {}]
    ELSE [apex |-> apex, auth |-> TRUE, min |-> min, soa |-> SoaRec(apex, min), recs |-> {SoaRec(apex, min)}]

Universe(apex) ==
    { [name |-> rel \o apex, wild |-> w, type |-> "A", data |-> d, target |-> <<>>, ttl |-> 300]
        : rel \in { <<>>, <<"a">>, <<"b", "a">> }, w \in BOOLEAN, d \in {"10.0.0.1", "10.0.0.2"} }

HostsUniverse == { [name |-> <<"h">>, v |-> 4, addr |-> "10.1.1.1"], [name |-> <<"h">>, v |-> 4, addr |-> "10.1.1.2"],
                   [name |-> <<"h">>, v |-> 6, addr |-> "::1"], [name |-> <<"a">>, v |-> 4, addr |-> "10.0.0.1"] }

NRecs(z) == Cardinality({ r \in z.recs : ~IsSoa(r) })

Init == zseq = <<>> /\ hseq = <<>>
Next ==
    \/ /\ Len(zseq) < MaxZones /\ hseq = <<>>
       /\ \E ap \in Apexes, min \in {0, 60, 300} :
              (min = 0 => ap = <<>>) /\ zseq' = Append(zseq, Empty(ap, min))
       /\ UNCHANGED hseq
    \/ /\ zseq # <<>> /\ hseq = <<>>
       /\ NRecs(zseq[Len(zseq)]) < MaxRecs
       /\ \E r \in Universe(zseq[Len(zseq)].apex) :
              zseq' = [zseq EXCEPT ![Len(zseq)] = ZoneInsert(@, r)]
       /\ zseq' # zseq
       /\ UNCHANGED hseq
    \/ /\ Len(hseq) < 2
       /\ Len(zseq) <= 1                 \* hosts only interact with the root zone: keep the product small
       /\ \E h \in SUBSET HostsUniverse :
              /\ Cardinality(h) \in {1, 2}
              /\ \A x, y \in h : (x.name = y.name /\ x.v = y.v) => x = y
              /\ hseq' = Append(hseq, h)
       /\ UNCHANGED zseq
Spec == Init /\ [][Next]_vars

Inv_C12_Union == LoadConfig(zseq, hseq) = UnionConfig(zseq, hseq)
Inv_C12_OneSoa == \A z \in LoadConfig(zseq, hseq) : OneSoa(z)

Inv_Gen == PrintT(<<"GENCONFIG", ToJson([zones |-> [i \in DOMAIN zseq |-> [apex |-> zseq[i].apex, auth |-> zseq[i].auth,
                                                       soa |-> zseq[i].soa, recs |-> SetToSeq(zseq[i].recs)]],
                                         hosts |-> [i \in DOMAIN hseq |-> SetToSeq(hseq[i])]])>>)
=============================================================================
