------------------------------- MODULE MCWire -------------------------------
(* Small-scope exploration of the wire format.                               *)
(*  SpecDec: byte strings grown chunk by chunk (real octet values, the real  *)
(*           limits); every string is printed with the verdict of Denote so  *)
(*           that the driver can replay it into the real decoder (GEN), and  *)
(*           the decoder meta-properties of C03 are checked on all of them.  *)
(*  SpecEnc: messages built record by record (shared names, fillers that     *)
(*           push later names across the 16 KiB pointer range); checks       *)
(*           Denote(Encode(m)) = m (C04) on the code-shaped encoder.         *)
EXTENDS Wire, Json, TLC, SequencesExt, Integers

CONSTANTS MaxChunks, MaxRecs, GenRecs, Fillers

VARIABLES b, n, msg
vars == <<b, n, msg>>

-----------------------------------------------------------------------------
Rep(x, k) == [i \in 1..k |-> x]

Header(qd, an) == <<171, 205, 1, 0, 0, qd, 0, an, 0, 0, 0, 0>>

Ttl == <<0, 0, 1, 44>>
Chunks(cur) ==
    { <<0>>,                                   \* root / end of name
      <<1, 97>>, <<1, 66>>,                    \* labels "a", "B"
      <<63>> \o Rep(120, 63),                  \* maximal label
      <<64, 120>>, <<128, 1>>,                 \* reserved label types
      <<192, 12>>, <<192, 0>>, <<192, 2>>,     \* pointers: first name, header, header
      <<192 + (cur \div 256), cur % 256>>,     \* pointer to itself
      <<192 + ((cur + 2) \div 256), (cur + 2) % 256>>,   \* forward pointer
      <<192>>,                                 \* truncated pointer
      <<0, 1, 0, 1>>,                          \* QTYPE A, QCLASS IN
      <<0, 1, 0, 1>> \o Ttl \o <<0, 4, 10, 0, 0, 1>>,    \* A, RDLENGTH exact
      <<0, 1, 0, 1>> \o Ttl \o <<0, 3, 10, 0, 0, 1>>,    \* A, RDLENGTH short
      <<0, 1, 0, 1>> \o Ttl \o <<0, 5, 10, 0, 0, 1>>,    \* A, RDLENGTH long
      <<0, 2, 0, 1>> \o Ttl \o <<0, 2>>,       \* NS, RDLENGTH 2 (a pointer or "a"+? follows)
      <<0, 2, 0, 1>> \o Ttl \o <<0, 3>>,       \* NS, RDLENGTH 3
      <<0, 15, 0, 1>> \o Ttl \o <<0, 4, 0, 10>>,   \* MX preference, RDLENGTH 4
      <<0, 16, 0, 1>> \o Ttl \o <<0, 2, 1, 120>>,  \* TXT exact
      <<0, 16, 0, 1>> \o Ttl \o <<0, 9, 1>>,       \* TXT longer than the message
      <<0, 99, 0, 3>> \o Ttl \o <<0, 0>> }         \* unknown type and class, empty RDATA

Headers == { Header(0, 0), Header(1, 0), Header(1, 1), Header(0, 2), Header(255, 255),
             <<171>>, <<171, 205>>, <<171, 205, 1, 0, 0, 1>> }

InitDec == b \in ({ <<>> } \cup Headers) /\ n = 0 /\ msg = 0
NextDec == /\ n < MaxChunks
           /\ Len(b) >= 12
           /\ \E c \in Chunks(Len(b)) : b' = b \o c
           /\ n' = n + 1
           /\ UNCHANGED msg
SpecDec == InitDec /\ [][NextDec]_vars

Inv_C03_Id ==
    LET d == Denote(b) IN
    ~d.ok => /\ d.hasid = (Len(b) >= 2)
             /\ d.hasid => d.id = U16At(b, 0)
\* C04 on decodable strings: re-encoding what was decoded decodes to it again
Inv_C04_Reencode ==
    LET d == Denote(b) IN
    d.ok => LET d2 == Denote(Encode(d.msg)) IN d2.ok /\ d2.msg = d.msg
Inv_GenDec == PrintT(<<"GENWIRE", ToJson([bytes |-> b, d |-> Denote(b)])>>)

-----------------------------------------------------------------------------
NA == << <<97>> >>                      \* a.
NB == << <<98>>, <<97>> >>              \* b.a.
NL == << Rep(120, 63), Rep(121, 63), Rep(122, 63), Rep(119, 61) >>   \* 255 octets

RRs == { [name |-> NA, type |-> 1, class |-> 1, ttl |-> <<0, 300>>, names |-> <<>>, ints |-> <<>>, raw |-> <<10, 0, 0, 1>>],
         [name |-> NA, type |-> 2, class |-> 1, ttl |-> <<1, 0>>, names |-> <<NB>>, ints |-> <<>>, raw |-> <<>>],
         [name |-> NB, type |-> 15, class |-> 1, ttl |-> <<0, 0>>, names |-> <<NA>>, ints |-> <<10>>, raw |-> <<>>],
         [name |-> NB, type |-> 5, class |-> 1, ttl |-> <<65535, 65535>>, names |-> <<NL>>, ints |-> <<>>, raw |-> <<>>],
         [name |-> NL, type |-> 16, class |-> 1, ttl |-> <<0, 1>>, names |-> <<>>, ints |-> <<>>, raw |-> <<>>],
         [name |-> <<>>, type |-> 6, class |-> 1, ttl |-> <<0, 1>>, names |-> <<NB, NA>>,
          ints |-> <<0, 1, 0, 2, 0, 3, 0, 4, 65535, 65535>>, raw |-> <<>>] }
FillerRRs == { [name |-> NA, type |-> 10, class |-> 1, ttl |-> <<0, 1>>, names |-> <<>>, ints |-> <<>>, raw |-> Rep(7, f)]
                 : f \in Fillers }

EmptyMsg(q) == [id |-> 4660, qr |-> TRUE, opcode |-> 0, aa |-> FALSE, tc |-> FALSE, rd |-> TRUE, ra |-> TRUE,
                rcode |-> 0,
                questions |-> IF q THEN << [name |-> NA, qtype |-> 255, qclass |-> 1] >> ELSE <<>>,
                answers |-> <<>>, authority |-> <<>>, additional |-> <<>>]

NRecs(m) == Len(m.answers) + Len(m.authority) + Len(m.additional)

InitEnc == msg \in { EmptyMsg(q) : q \in BOOLEAN } /\ b = <<>> /\ n = 0
NextEnc == /\ NRecs(msg) < MaxRecs
           /\ \/ \E rr \in RRs \cup FillerRRs : msg' = [msg EXCEPT !.answers = Append(@, rr)]
              \/ /\ Len(msg.additional) = 0
                 /\ \E rr \in RRs : msg' = [msg EXCEPT !.authority = Append(@, rr)]
              \/ \E rr \in RRs : msg' = [msg EXCEPT !.additional = Append(@, rr)]
           /\ UNCHANGED <<b, n>>
SpecEnc == InitEnc /\ [][NextEnc]_vars

Inv_C04_RoundTrip ==
    LET d == Denote(Encode(msg)) IN d.ok /\ d.msg = msg
Inv_C04_PtrTarget ==
    LET d == Denote(Encode(msg)) IN
    d.ok => PointersAfterHeader(d)
\* long opaque RDATA is printed as <<-1, length>> (the driver expands it again)
CompactRR(rr) == IF Len(rr.raw) > 64 THEN [rr EXCEPT !.raw = <<0 - 1, Len(rr.raw)>>] ELSE rr
CompactSec(s) == [i \in DOMAIN s |-> CompactRR(s[i])]
Compact(m) == [m EXCEPT !.answers = CompactSec(@), !.authority = CompactSec(@), !.additional = CompactSec(@)]
Inv_GenEnc == NRecs(msg) <= GenRecs => PrintT(<<"GENMSG", ToJson(Compact(msg))>>)

=============================================================================
