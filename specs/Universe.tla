------------------------------- MODULE Universe -------------------------------
(***************************************************************************)
(* A DNS universe: authoritative zones delegated from the root, served by  *)
(* name servers at given addresses.  This is the environment of the        *)
(* recursive resolver (properties C07, C08, C18), not part of resolved.    *)
(*                                                                         *)
(* U = [zones : set of authoritative zones (module ZoneLookup),            *)
(*      servers : set of [addr, v, apexes]]                                *)
(*  AuthReply(U, addr, q) - what the server at addr answers (RFC 1034      *)
(*                          4.3.2: answer with AA, referral with glue,     *)
(*                          NXDOMAIN / NODATA with the SOA, REFUSED)       *)
(*  Truth(U, q)           - the answer the hierarchy holds for q: the      *)
(*                          alias chain followed by the final record set,  *)
(*                          or an empty answer with the zone's SOA         *)
(***************************************************************************)
EXTENDS LocalResolve

\* the zone of U that holds the authoritative data for name n
ZoneFor(U, n) == ZonesGet(U.zones, n)

\* highest delegation point of z at or above n (the apex excluded); {} if none
CutAbove(z, n) ==
    LET cs == { c \in Cuts(z) : IsSubdomain(n, c) } IN
    IF cs = {} THEN {} ELSE { CHOOSE c \in cs : \A d \in cs : Len(c) <= Len(d) }

Reply(rcode, aa, answers, authority, additional) ==
    [rcode |-> rcode, aa |-> aa, answers |-> answers, authority |-> authority, additional |-> additional]

\* a proper authoritative server: cuts take precedence over data beneath them
AuthAnswer(z, q) ==
    LET cut == CutAbove(z, q.name) IN
    IF cut # {}
    THEN LET c == CHOOSE x \in cut : TRUE
             ns == { RR(r, c) : r \in OfType(Plain(z, c), "NS") }
             glue == { RR(r, r.name) : r \in { x \in z.recs : ~x.wild /\ x.type \in {"A", "AAAA"}
                                                              /\ \E n \in ns : n.target = x.name } }
         IN Reply(0, FALSE, <<>>, AsSeq(ns), AsSeq(glue))
    ELSE LET r == CHOOSE x \in Rfc1034(z, q.name, q.type) : TRUE IN
         IF r.kind = "nameerror" THEN Reply(3, TRUE, <<>>, <<SoaRR(z)>>, <<>>)
         ELSE IF r.kind = "answer" /\ r.rrs = {} THEN Reply(0, TRUE, <<>>, <<SoaRR(z)>>, <<>>)
         ELSE Reply(0, TRUE, AsSeq(r.rrs), <<>>, <<>>)           \* answer, or the alias alone

Refused == Reply(5, FALSE, <<>>, <<>>, <<>>)

AuthReply(U, addr, q) ==
    LET srv == { s \in U.servers : s.addr = addr }
        served == { z \in U.zones : \E s \in srv : z.apex \in s.apexes }
        zsel == ZonesGet(served, q.name)
    IN IF zsel = {} THEN Refused ELSE AuthAnswer(CHOOSE z \in zsel : TRUE, q)

\* [ok, rrs (sequence: alias chain, then the final set), soa, negative]
RECURSIVE TruthFrom(_, _, _, _)
TruthFrom(U, name, type, seen) ==
    LET zsel == ZoneFor(U, name) IN
    IF zsel = {} THEN [ok |-> FALSE, rrs |-> <<>>, soa |-> NoRR, negative |-> FALSE]
    ELSE LET z == CHOOSE x \in zsel : TRUE
             r == CHOOSE x \in Rfc1034(z, name, type) : TRUE
         IN IF CutAbove(z, name) # {} THEN [ok |-> FALSE, rrs |-> <<>>, soa |-> NoRR, negative |-> FALSE]   \* lame
            ELSE IF r.kind = "cname"
            THEN IF r.cname \in seen THEN [ok |-> FALSE, rrs |-> <<>>, soa |-> NoRR, negative |-> FALSE]
                 ELSE LET t == TruthFrom(U, r.cname, type, seen \cup {r.cname}) IN
                      [t EXCEPT !.rrs = AsSeq(r.rrs) \o @]
            ELSE IF r.kind = "answer" /\ r.rrs # {}
            THEN [ok |-> TRUE, rrs |-> AsSeq(r.rrs), soa |-> NoRR, negative |-> FALSE]
            ELSE [ok |-> TRUE, rrs |-> <<>>, soa |-> SoaRR(z), negative |-> TRUE]

Truth(U, q) == TruthFrom(U, q.name, q.type, {q.name})

\* what a well-behaved recursive resolver (a forwarder) answers: the whole truth in one reply
FwdReply(U, q) ==
    LET t == Truth(U, q) IN
    IF ~t.ok THEN Reply(2, FALSE, <<>>, <<>>, <<>>)                       \* SERVFAIL
    ELSE IF t.negative THEN Reply(0, FALSE, t.rrs, <<t.soa>>, <<>>)
    ELSE Reply(0, FALSE, t.rrs, <<>>, <<>>)

\* the apex (label count) of the zone a server answers for name n from; 0 if it serves nothing enclosing n
ServingDepth(U, addr, n) ==
    LET srv == { s \in U.servers : s.addr = addr }
        served == { z \in U.zones : \E s \in srv : z.apex \in s.apexes }
        zsel == ZonesGet(served, n)
    IN IF zsel = {} THEN 0 ELSE Len((CHOOSE z \in zsel : TRUE).apex) + 1

=============================================================================
