------------------------------ MODULE MCZoneSer ------------------------------
(* C13 at small scope: zones whose labels and opaque RDATA contain every kind  *)
(* of awkward octet are written by the (code-shaped) serialiser and read back  *)
(* by the parser of the specification: ParseZone(Serialise(z)) = z.            *)
EXTENDS ZoneText, Json, SequencesExt

CONSTANTS MaxRecs, Specials

VARIABLES zone
vars == <<zone>>

c_ip == <<49, 48, 46, 48, 46, 48, 46, 49>>
Lits == [t \in {c_ip} |-> [v |-> 4, canon |-> "10.0.0.1"]]
AText == [a \in {"10.0.0.1"} |-> c_ip]

L_e == <<101>>
L_a == <<97>>
ApexE == << L_e, <<>> >>
Root == << <<>> >>

Soa(apex) == [ok |-> TRUE, big |-> FALSE, type |-> "SOA", names |-> << <<L_a>> \o apex, <<L_a>> \o apex >>,
              nums |-> <<1, 2, 3, 4, 60>>, raw |-> <<>>, addr |-> ""]

Zones0 == { [apex |-> Root, auth |-> FALSE, soa |-> NoRdata, recs |-> {}],
            [apex |-> Root, auth |-> TRUE, soa |-> Soa(Root), recs |-> {}],
            [apex |-> ApexE, auth |-> TRUE, soa |-> Soa(ApexE), recs |-> {}] }

R(name, wild, type, names, raw, addr) ==
    [name |-> name, wild |-> wild, type |-> type, ttl |-> 300, names |-> names, nums |-> <<>>, raw |-> raw, addr |-> addr]

\* every placement of a special label s: first / inner owner label, wildcard parent, RDATA name inside and
\* outside the zone, and the special octets as opaque RDATA
Placements(apex, s) ==
    { R(<<s>> \o apex, FALSE, "A", <<>>, <<>>, "10.0.0.1"),
      R(<<L_a, s>> \o apex, FALSE, "A", <<>>, <<>>, "10.0.0.1"),
      R(<<s, L_a>> \o apex, FALSE, "A", <<>>, <<>>, "10.0.0.1"),
      R(<<s>> \o apex, TRUE, "A", <<>>, <<>>, "10.0.0.1"),
      R(apex, FALSE, "CNAME", << <<s>> \o apex >>, <<>>, ""),
      R(<<L_a>> \o apex, FALSE, "CNAME", << <<s, L_a>> \o Root >>, <<>>, ""),
      R(<<L_a>> \o apex, FALSE, "TXT", <<>>, s \o <<200>> \o s, ""),
      R(apex, FALSE, "TXT", <<>>, <<>>, ""),
      R(apex, TRUE, "HINFO", <<>>, s, "") }

SpecialsQuick == { <<34>>, <<92>>, <<59>>, <<40>>, <<41>>, <<32>>, <<9>>, <<64>>, <<36>>, <<49>>, <<120>>, <<1>>, <<127>>,
                   <<120, 32>>, <<64, 120>>, <<92, 34>> }
SpecialsAll == SpecialsQuick \cup { <<0>>, <<10>>, <<13>>, <<35>>, <<39>>, <<47>>, <<126>>, <<120, 64>>, <<40, 41>>,
                                    <<59, 59>>, <<32, 32>>, <<49, 50>>, <<105, 110>> }   \* ("in": the class mnemonic in lower case is an owner label; labels are lower case, I2)

Init == zone \in Zones0
Next == /\ Cardinality(zone.recs) < MaxRecs
        /\ \E s \in Specials : \E r \in Placements(zone.apex, s) : zone' = [zone EXCEPT !.recs = @ \cup {r}]
Spec == Init /\ [][Next]_vars

Inv_C13_RoundTrip ==
    LET P == ParseZone(Serialise(zone, AText), Lits) IN
    /\ P.ok
    /\ P.apex = zone.apex /\ P.auth = zone.auth
    /\ P.recs = zone.recs
    /\ zone.auth => (P.soa.names = zone.soa.names /\ P.soa.nums = zone.soa.nums)

Inv_Gen == PrintT(<<"GENZONESER", ToJson([apex |-> zone.apex, auth |-> zone.auth, soa |-> zone.soa,
                                          recs |-> SetToSeq(zone.recs)])>>)
=============================================================================
