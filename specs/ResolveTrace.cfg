SPECIFICATION Spec
CONSTANTS
  BuggyF1 = FALSE
  BuggyF3 = FALSE
  BuggyF4 = FALSE
  Limit = 32
POSTCONDITION AllConsumed
CHECK_DEADLOCK FALSE
