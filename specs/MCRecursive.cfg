SPECIFICATION Spec
CONSTANTS
  Limit = 32
  BuggyF1 = FALSE
  BuggyF3 = FALSE
  BuggyF4 = FALSE
  BuggyF15 = FALSE
  MaxAsk = 2
  MaxFaults = 1
  MaxForget = 0
INVARIANTS Inv_C07_Truth Inv_C08_Stack Inv_C08_Supplied Inv_C18_Family Inv_C10_Chain
PROPERTIES Act_C07_Closer Live_C08_Ends
CHECK_DEADLOCK FALSE
