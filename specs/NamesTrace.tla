------------------------------ MODULE NamesTrace ------------------------------
(* Trace validation for C16: each line is one call of a name constructor of   *)
(* the real code with its result and a few observations on the result         *)
(* (recorded length, dotted text, re-parse, equality / hash / zone selection / *)
(* cache selection under a differently-cased spelling, subdomain tests).      *)
EXTENDS NameOctets, Json, IOUtils, TLC

Rec == ndJsonDeserialize(IOEnv.TRACE)
VARIABLE l
vars == <<l>>

Expected(c) ==
    CASE c.op = "from_labels"  -> IF \A i \in DOMAIN c.labels : Len(c.labels[i]) <= LabelMax
                                  THEN FromLabels(c.labels) ELSE NoName
      [] c.op = "from_dotted"  -> FromDotted(c.s)
      [] c.op = "from_relative" -> FromRelative(c.origin, c.s)
      [] c.op = "make_subdomain" -> MakeSubdomain(c.a, c.b)

ResultOK(c) ==
    LET e == Expected(c) IN
    /\ c.out.ok = e.ok                                  \* accepted exactly when within the limits
    /\ e.ok => /\ c.out.labels = e.name                 \* the name denoted, lower-cased
               /\ WellFormed(c.out.labels)
               /\ c.out.len = EncodedLen(c.out.labels)   \* recorded length = encoded length
               /\ c.out.dotted = ToDotted(e.name)
               /\ (IsAsciiNoDot(e.name) => c.out.reparse.ok /\ c.out.reparse.labels = e.name)
               \* case-insensitive comparison, hashing, zone and cache selection
               /\ c.out.case.eq /\ c.out.case.hash_eq /\ c.out.case.zone_hit /\ c.out.case.cache_hit
               /\ c.out.case.subdomain_both_ways

SubdomainOK(c) == c.out = IsSubdomain(c.a, c.b)

\* I6: joining goes through the origin's dotted text, so it is only claimed for origins
\* whose labels are ASCII without dots (the only origins zone and hosts files can produce)
InClaim(c) == c.op = "from_relative" => IsAsciiNoDot(c.origin)

Check(i) ==
    LET c == Rec[i] IN
    IF ~InClaim(c) THEN TRUE
    ELSE IF (IF c.op = "is_subdomain" THEN SubdomainOK(c) ELSE ResultOK(c)) THEN TRUE
    ELSE PrintT(<<"REJECT", i>>)

Init == l = 0
Next == l < Len(Rec) /\ Check(l + 1) /\ l' = l + 1
Spec == Init /\ [][Next]_vars
AllConsumed == TLCGet("stats").diameter - 1 = Len(Rec)
=============================================================================
