------------------------------ MODULE HostsTrace ------------------------------
(* Trace validation for C14: each line is one hosts text with the dictionary   *)
(* of address literals occurring in it, what Hosts::deserialise made of it,    *)
(* and - when it parsed - the serialised text, its re-parse, the zone it       *)
(* converts to, the conversions back and a lookup of every name.               *)
EXTENDS HostsText, Json, IOUtils, Functions

Rec == ndJsonDeserialize(IOEnv.TRACE)
VARIABLE l
vars == <<l>>

LitsOf(list) ==
    [t \in { list[i].tok : i \in DOMAIN list } |->
        LET e == CHOOSE x \in Range(list) : x.tok = t IN [v |-> e.v, canon |-> e.canon]]

ParseOK(c, P) ==
    /\ c.parse.ok = P.ok
    /\ P.ok => /\ Range(c.parse.hosts) = P.hosts
               /\ Len(c.parse.hosts) = Cardinality(P.hosts)

ZoneOf(hosts) == { [name |-> h.name, type |-> IF h.v = 4 THEN "A" ELSE "AAAA", addr |-> h.addr, ttl |-> 5, wild |-> FALSE]
                     : h \in hosts }

ConvOK(c, P, lits) ==
    c.conv.present =>
        /\ c.conv.reparse.ok /\ Range(c.conv.reparse.hosts) = P.hosts       \* what the real parser reads back
        /\ LET R == ParseHosts(c.conv.ser, lits) IN R.ok /\ R.hosts = P.hosts  \* what hosts(5) reads in the written text
        /\ c.conv.zone.auth = FALSE /\ c.conv.zone.apex = << <<>> >>
        /\ Range(c.conv.zone.recs) = ZoneOf(P.hosts)                        \* exactly one A / AAAA per mapping
        /\ Len(c.conv.zone.recs) = Cardinality(P.hosts)
        /\ c.conv.back.ok /\ Range(c.conv.back.hosts) = P.hosts
        /\ Range(c.conv.lossy) = P.hosts
        /\ Len(c.conv.lookups) = Cardinality(P.hosts)
        /\ \A i \in DOMAIN c.conv.lookups :
              LET q == c.conv.lookups[i] IN
              /\ q.kind = "answer"
              /\ \E h \in P.hosts : h.name = q.name /\ (h.v = 4) = (q.type = "A") /\ q.addrs = <<h.addr>>

Check(i) ==
    LET c == Rec[i]
        lits == LitsOf(c.lits)
        P == ParseHosts(c.text, lits)
    IN IF c.ev = "hosts" /\ ParseOK(c, P) /\ ConvOK(c, P, lits) THEN TRUE
       ELSE PrintT(<<"REJECT", i>>)

Init == l = 0
Next == l < Len(Rec) /\ Check(l + 1) /\ l' = l + 1
Spec == Init /\ [][Next]_vars
AllConsumed == TLCGet("stats").diameter - 1 = Len(Rec)
=============================================================================
