SPECIFICATION Spec
CONSTANTS BuggyF1 = FALSE
POSTCONDITION AllConsumed
CHECK_DEADLOCK FALSE
