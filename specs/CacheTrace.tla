------------------------------ MODULE CacheTrace ------------------------------
(* Trace validation for C05 / C15: each line is one linearisation point of the *)
(* real cache (hook H2, taken under the cache mutex): the operation, its       *)
(* result, and the projected state after it.  A trace is accepted iff every    *)
(* step satisfies the user-level relations of module Cache, starting from the  *)
(* state the previous step left.                                               *)
EXTENDS Cache, Json, IOUtils, TLC, Functions

Rec == ndJsonDeserialize(IOEnv.TRACE)

VARIABLES store, used, desired, direct, l
vars == <<store, used, desired, direct, l>>

Post(ev) == Range(ev.post.entries)

\* C15: the record count is the number of distinct entries; no entry twice
PostOK(ev) ==
    /\ Len(ev.post.entries) = Cardinality(Post(ev))
    /\ UniqueKeys(Post(ev))
    /\ ev.post.size = Cardinality(Post(ev))

IsEv(k) == l < Len(Rec) /\ Rec[l + 1].ev = k /\ l' = l + 1
Ev == Rec[l + 1]

Reset ==
    /\ IsEv("reset")
    /\ store' = {}
    /\ used' = [n \in {} |-> 0]
    /\ desired' = Ev.desired
    /\ direct' = Ev.direct

InsertEv ==
    /\ IsEv("insert")
    /\ direct \/ Ev.ttl > 0                      \* C05: the shared cache never stores TTL 0
    /\ PostOK(Ev)
    /\ InsertOK(store, Ev.now, Ev.name, Ev.type, Ev.data, Ev.ttl, Post(Ev))
    /\ store' = Post(Ev)
    /\ used' = UsedAfterInsert(used, Post(Ev), Ev.now, Ev.name, Ev.type)
    /\ UNCHANGED <<desired, direct>>

SkippedEv ==
    /\ IsEv("insert_skipped")
    /\ Ev.ttl = 0
    /\ UNCHANGED <<store, used, desired, direct>>

GetEv ==
    /\ IsEv("get")
    /\ PostOK(Ev)
    /\ GetOK(store, Ev.now, Ev.name, Ev.qtype, Ev.ret, Post(Ev))
    /\ store' = Post(Ev)
    /\ used' = UsedAfterGet(used, store, Post(Ev), Ev.now, Ev.name, Ev.qtype, Ev.ret)
    /\ UNCHANGED <<desired, direct>>

PruneEv ==
    /\ IsEv("prune")
    /\ PostOK(Ev)
    /\ PruneOK(store, used, Ev.now, desired, Ev.ret, Post(Ev))
    /\ store' = Post(Ev)
    /\ used' = UsedRestrict(used, Post(Ev))
    /\ UNCHANGED <<desired, direct>>

Init == store = {} /\ used = [n \in {} |-> 0] /\ desired = 0 /\ direct = FALSE /\ l = 0
Next == Reset \/ InsertEv \/ SkippedEv \/ GetEv \/ PruneEv
Spec == Init /\ [][Next]_vars

Accepted ==
    LET d == TLCGet("stats").diameter IN
    IF d - 1 = Len(Rec) THEN TRUE
    ELSE PrintT(<<"UNMATCHED", d>>) /\ FALSE
=============================================================================
