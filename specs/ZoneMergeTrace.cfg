SPECIFICATION Spec
CONSTANTS
  BuggyF1 = FALSE
  BuggyF7 = FALSE
  BuggyF8 = FALSE
POSTCONDITION AllConsumed
CHECK_DEADLOCK FALSE
