----------------------------- MODULE ValidateTrace -----------------------------
(* Trace validation for C06 (filter level): each line is a question, the depth  *)
(* of the delegation in use, an upstream reply, and what the real               *)
(* validate_nameserver_response kept of it.                                     *)
EXTENDS Validate, Json, IOUtils

Rec == ndJsonDeserialize(IOEnv.TRACE)
VARIABLE l
vars == <<l>>

ReplyOf(c) == [rcode |-> c.reply.rcode, answers |-> c.reply.answers, authority |-> c.reply.authority,
               additional |-> c.reply.additional]

\* everything kept is allowed by C06
Allowed(c) ==
    /\ SeqRange(c.out.rrs) \subseteq Relevant(c.q, c.mc, ReplyOf(c))
    /\ c.out.has_soa => NegativeSoaOK(c.q, c.mc, ReplyOf(c), c.out.soa)

\* agreement with the code-shaped model (reported as drift)
SameAsModel(c) ==
    LET k == Keep(c.q, c.mc, ReplyOf(c)) IN
    /\ c.out.kind = k.kind /\ SeqRange(c.out.rrs) = SeqRange(k.rrs) /\ c.out.soa = k.soa
    /\ c.out.cname = k.cname /\ c.out.dname = k.dname /\ SeqRange(c.out.hosts) = k.hosts

Check(i) ==
    LET c == Rec[i] IN
    /\ IF c.ev = "validate" /\ Allowed(c) THEN TRUE ELSE PrintT(<<"REJECT", i>>)
    /\ IF c.ev = "validate" /\ SameAsModel(c) THEN TRUE ELSE PrintT(<<"DRIFT", i>>)

Init == l = 0
Next == l < Len(Rec) /\ Check(l + 1) /\ l' = l + 1
Spec == Init /\ [][Next]_vars
AllConsumed == TLCGet("stats").diameter - 1 = Len(Rec)
=============================================================================
