-------------------------------- MODULE Cache --------------------------------
(***************************************************************************)
(* The record cache as its users may rely on it (properties C05 and C15),  *)
(* written as RELATIONS between the abstract state before an operation,    *)
(* the operation with its arguments and its result, and the abstract state *)
(* after it.  The relations are deliberately exactly as loose as the       *)
(* property statements: an implementation may drop expired entries at any  *)
(* operation, may withhold a record during its last sub-second (I5), may   *)
(* break LRU ties either way.  They are used                                *)
(*   - by CacheImpl (code-shaped model) as the refinement obligation that  *)
(*     TLC checks on every transition, and                                 *)
(*   - by CacheTrace to validate executions of the real cache.             *)
(*                                                                         *)
(* Abstract state: a set of entries [name, type, data, exp] (exp = absolute *)
(* expiry in ms), at most one per key; and for each stored name the time   *)
(* it was last used, known up to an interval [lo, hi] (a lookup that finds *)
(* the name but returns nothing may or may not count as a use).            *)
(***************************************************************************)
EXTENDS Naturals, Sequences, FiniteSets

Key(e) == <<e.name, e.type, e.data>>

QMatches(rt, qt) == qt = "ANY" \/ rt = qt

Expired(s, now) == { e \in s : e.exp <= now }

Names(s) == { e.name : e \in s }
Of(s, n) == { e \in s : e.name = n }

UniqueKeys(s) == \A e, f \in s : Key(e) = Key(f) => e = f

\* only entries that have expired may vanish as a side effect
OnlyExpiredDropped(s, s2, now) == (s \ s2) \subseteq Expired(s, now)

-----------------------------------------------------------------------------
\* insert of one record with TTL ttl (seconds) at time now (ms)
InsertOK(s, now, name, type, data, ttl, s2) ==
    LET new  == [name |-> name, type |-> type, data |-> data, exp |-> now + ttl * 1000]
        kept == { e \in s : Key(e) # Key(new) }
    IN /\ new \in s2                                     \* stored, lifetime restarted
       /\ (s2 \ {new}) \subseteq kept                    \* nothing else appears, old copy gone
       /\ OnlyExpiredDropped(kept, s2 \ {new}, now)
       /\ UniqueKeys(s2)

\* the shared cache skips TTL 0
SharedInsertOK(s, now, name, type, data, ttl, s2) ==
    IF ttl = 0 THEN s2 \subseteq s /\ OnlyExpiredDropped(s, s2, now)
    ELSE InsertOK(s, now, name, type, data, ttl, s2)

\* lookup; ret is a sequence of [name, type, data, ttl]
GetOK(s, now, name, qtype, ret, s2) ==
    /\ s2 \subseteq s /\ OnlyExpiredDropped(s, s2, now)
    \* C05: nothing past its TTL, reported TTL never exceeds the time left, data unchanged
    /\ \A i \in DOMAIN ret :
          /\ ret[i].name = name
          /\ QMatches(ret[i].type, qtype)
          /\ \E e \in s : /\ Key(e) = <<ret[i].name, ret[i].type, ret[i].data>>
                          /\ e.exp > now
                          /\ ret[i].ttl * 1000 <= e.exp - now
    \* no record twice
    /\ \A i, j \in DOMAIN ret :
          (ret[i].type = ret[j].type /\ ret[i].data = ret[j].data) => i = j
    \* C05 completeness (I5: at least one whole second left)
    /\ \A e \in s : (e.name = name /\ QMatches(e.type, qtype) /\ e.exp - now >= 1000)
          => \E i \in DOMAIN ret : <<ret[i].name, ret[i].type, ret[i].data>> = Key(e)

\* prune; ret = [size, expired, evicted]; used = [name -> [lo, hi]]
PruneOK(s, used, now, desired, ret, s2) ==
    LET ex   == Expired(s, now)
        live == s \ ex
        ev   == live \ s2
        EN   == Names(ev)
        RN   == Names(s2)
    IN /\ s2 \subseteq live                                  \* no expired record left, nothing invented
       /\ Cardinality(s2) <= desired                         \* down to size
       /\ ret.expired = Cardinality(ex)                      \* true numbers
       /\ ret.evicted = Cardinality(ev)
       /\ ret.size = Cardinality(s2)
       /\ \A n \in EN : Of(live, n) \subseteq ev             \* whole names
       /\ \A n \in EN, m \in RN : used[n].lo <= used[m].hi   \* least recently used first
       /\ EN # {} =>                                         \* only while over size
            \E last \in EN :
                /\ \A n \in EN : used[n].lo <= used[last].hi
                /\ Cardinality(live \ { e \in ev : e.name # last }) > desired

-----------------------------------------------------------------------------
\* bookkeeping of the last-use interval; `held` = the record types the name has held since it entered the cache
\* (the code keeps a - possibly empty - slot per type for as long as the name is cached)
UsedAfterInsert(used, s2, now, name, type) ==
    [n \in Names(s2) |->
        IF n = name THEN [lo |-> now, hi |-> now,
                          held |-> (IF name \in DOMAIN used THEN used[name].held ELSE {}) \cup {type}]
        ELSE used[n]]

\* A lookup that returns records is a use of the name.  A lookup that returns nothing although the name holds or has
\* held a record of a matching type (expired, withheld in its last sub-second, or removed by a prune while the name
\* stayed) may or may not count: the code touches the name, a stricter cache need not.  A lookup for a type the name
\* has NEVER held since it entered the cache is not a use: its place in the eviction order stays as it was.
UsedAfterGet(used, s, s2, now, name, qtype, ret) ==
    [n \in Names(s2) |->
        IF n # name THEN used[n]
        ELSE IF ret # <<>> THEN [used[n] EXCEPT !.lo = now, !.hi = now]
        ELSE IF \A t \in used[n].held : ~QMatches(t, qtype) THEN used[n]
        ELSE [used[n] EXCEPT !.hi = now]]

UsedRestrict(used, s2) == [n \in Names(s2) |-> used[n]]

=============================================================================
