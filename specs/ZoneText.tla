------------------------------- MODULE ZoneText -------------------------------
(***************************************************************************)
(* Zone (master) files: RFC 1035 section 5 as crates/dns-types/src/zones/  *)
(* deserialise.rs reads it and serialise.rs writes it (C11, C13, C17).     *)
(*                                                                         *)
(* Text is a sequence of code points.  A token is a sequence of octets     *)
(* (the tokeniser resolves \X and \DDD escapes; the characters of a token  *)
(* and its octets coincide).  Address literals are looked up in `lits`     *)
(* (text -> canonical string), as in HostsText.  Numbers are kept as       *)
(* canonical decimal strings; a number of more than 9 significant digits   *)
(* makes a case "big" (outside what TLC's 32-bit integers can decide).     *)
(*                                                                         *)
(* Names are label sequences with the final root label (module NameOctets).*)
(* A parsed record is                                                      *)
(*   [name, wild, type, ttl, names, nums, raw, addr]                       *)
(* (ttl a Nat; nums the numeric RDATA fields; raw the opaque octets).      *)
(* ParseZone(text, lits) = [ok, big, apex, auth, soa, recs]                *)
(***************************************************************************)
EXTENDS NameOctets, TLC

CONSTANT BuggyF14    \* TRUE = tokeniser before fix F14 ('(' and ')' special only between tokens)

WS == {9, 11, 12, 13, 32, 133, 160, 5760, 8232, 8233, 8239, 8287, 12288} \cup (8192..8202)
LF == 10
IsAscii(c) == c < 128
IsDigit(c) == c >= 48 /\ c <= 57

Str(s) == [i \in 1..Len(s) |-> s[i]]     \* a TLA+ string cannot be indexed; tokens are code-point sequences

-----------------------------------------------------------------------------
(* Tokeniser (code-shaped: tokenise_entry, one step per character)         *)

\* \DDD or \X starting after the backslash at position i (the character at i is the first after '\')
Escape(text, i) ==
    IF i > Len(text) THEN [ok |-> FALSE, oct |-> 0, next |-> i]
    ELSE IF IsDigit(text[i])
    THEN IF i + 2 > Len(text) \/ ~IsDigit(text[i + 1]) \/ ~IsDigit(text[i + 2])
         THEN [ok |-> FALSE, oct |-> 0, next |-> i]
         ELSE LET v == (text[i] - 48) * 100 + (text[i + 1] - 48) * 10 + (text[i + 2] - 48) IN
              IF v > 255 THEN [ok |-> FALSE, oct |-> 0, next |-> i]
              ELSE [ok |-> TRUE, oct |-> v, next |-> i + 3]
    ELSE IF IsAscii(text[i]) THEN [ok |-> TRUE, oct |-> text[i], next |-> i + 1]
    ELSE [ok |-> FALSE, oct |-> 0, next |-> i]

Flush(cur, toks) == IF cur = <<>> THEN toks ELSE Append(toks, cur)

TokDone(toks, next) == [err |-> FALSE, toks |-> toks, next |-> next]
TokErr == [err |-> TRUE, toks |-> <<>>, next |-> 0]

\* state: "I" initial, "U" unquoted string, "Q" quoted string, "C" comment
RECURSIVE Tok(_, _, _, _, _, _)
Tok(text, i, state, cont, cur, toks) ==
    IF i > Len(text) THEN TokDone(Flush(cur, toks), i)
    ELSE LET c == text[i] IN
    CASE state = "I" ->
            IF c = LF THEN (IF cont THEN Tok(text, i + 1, "I", cont, cur, toks) ELSE TokDone(Flush(cur, toks), i + 1))
            ELSE IF c = 59 THEN Tok(text, i + 1, "C", cont, cur, toks)
            ELSE IF c = 40 THEN (IF cont THEN TokErr ELSE Tok(text, i + 1, "I", TRUE, cur, toks))
            ELSE IF c = 41 THEN (IF cont THEN Tok(text, i + 1, "I", FALSE, cur, toks) ELSE TokErr)
            ELSE IF c = 34 THEN Tok(text, i + 1, "Q", cont, cur, toks)
            ELSE IF c = 92 THEN LET e == Escape(text, i + 1) IN
                                IF ~e.ok THEN TokErr ELSE Tok(text, e.next, "U", cont, Append(cur, e.oct), toks)
            ELSE IF c \in WS THEN Tok(text, i + 1, "I", cont, cur, toks)
            ELSE IF IsAscii(c) THEN Tok(text, i + 1, "U", cont, Append(cur, c), toks)
            ELSE TokErr
      [] state = "U" ->
            IF c = LF THEN (IF cont THEN Tok(text, i + 1, "I", cont, <<>>, Flush(cur, toks))
                            ELSE TokDone(Flush(cur, toks), i + 1))
            ELSE IF c = 59 THEN Tok(text, i + 1, "C", cont, <<>>, Flush(cur, toks))
            ELSE IF c = 92 THEN LET e == Escape(text, i + 1) IN
                                IF ~e.ok THEN TokErr ELSE Tok(text, e.next, "U", cont, Append(cur, e.oct), toks)
            ELSE IF ~BuggyF14 /\ c = 40
            THEN (IF cont THEN TokErr ELSE Tok(text, i + 1, "I", TRUE, <<>>, Flush(cur, toks)))
            ELSE IF ~BuggyF14 /\ c = 41
            THEN (IF cont THEN Tok(text, i + 1, "I", FALSE, <<>>, Flush(cur, toks)) ELSE TokErr)
            ELSE IF c \in WS THEN Tok(text, i + 1, "I", cont, <<>>, Flush(cur, toks))
            ELSE IF IsAscii(c) THEN Tok(text, i + 1, "U", cont, Append(cur, c), toks)
            ELSE TokErr
      [] state = "C" ->
            IF c = LF THEN (IF cont THEN Tok(text, i + 1, "I", cont, cur, toks) ELSE TokDone(Flush(cur, toks), i + 1))
            ELSE Tok(text, i + 1, "C", cont, cur, toks)
      [] state = "Q" ->
            IF c = 34 THEN Tok(text, i + 1, "I", cont, <<>>, Append(toks, cur))
            ELSE IF c = 92 THEN LET e == Escape(text, i + 1) IN
                                IF ~e.ok THEN TokErr ELSE Tok(text, e.next, "Q", cont, Append(cur, e.oct), toks)
            ELSE IF IsAscii(c) THEN Tok(text, i + 1, "Q", cont, Append(cur, c), toks)
            ELSE TokErr

TokeniseEntry(text, i) == Tok(text, i, "I", FALSE, <<>>, <<>>)

-----------------------------------------------------------------------------
(* Fields                                                                  *)

T_IN == <<73, 78>>
T_ORIGIN == <<36, 79, 82, 73, 71, 73, 78>>
T_INCLUDE == <<36, 73, 78, 67, 76, 85, 68, 69>>
T_AT == <<64>>
T_STAR == <<42>>

AllDigits(t) == \A i \in DOMAIN t : IsDigit(t[i])

\* decimal number: [ok, big, val]; Rust's from_str accepts one leading '+'
RECURSIVE DigitsVal(_, _)
DigitsVal(t, acc) == IF t = <<>> THEN acc ELSE DigitsVal(Tail(t), acc * 10 + (t[1] - 48))
RECURSIVE StripZeros(_)
StripZeros(t) == IF Len(t) > 1 /\ t[1] = 48 THEN StripZeros(Tail(t)) ELSE t
Num(t0) ==
    LET t == IF t0 # <<>> /\ t0[1] = 43 THEN Tail(t0) ELSE t0 IN
    IF t = <<>> \/ ~AllDigits(t) THEN [ok |-> FALSE, big |-> FALSE, val |-> 0]
    ELSE LET s == StripZeros(t) IN
         IF Len(s) > 9 THEN [ok |-> TRUE, big |-> TRUE, val |-> 0]
         ELSE [ok |-> TRUE, big |-> FALSE, val |-> DigitsVal(s, 0)]
Num16(t) == LET n == Num(t) IN IF n.ok /\ (n.big \/ n.val > 65535) THEN [ok |-> FALSE, big |-> FALSE, val |-> 0] ELSE n

\* parse_domain: all characters ASCII, "@" is the origin, absolute if it ends with a dot
Domain(origin, hasOrigin, t) ==
    IF t = <<>> \/ \E i \in DOMAIN t : ~IsAscii(t[i]) THEN NoName
    ELSE IF t = T_AT THEN (IF hasOrigin THEN Name(origin) ELSE NoName)
    ELSE IF t[Len(t)] = Dot THEN FromDotted(t)
    ELSE IF hasOrigin THEN FromRelative(origin, t)
    ELSE NoName

\* parse_domain_or_wildcard: [ok, wild, name]
Owner(origin, hasOrigin, t) ==
    IF t = <<>> THEN [ok |-> FALSE, wild |-> FALSE, name |-> <<>>]
    ELSE IF t = T_STAR THEN [ok |-> hasOrigin, wild |-> TRUE, name |-> origin]
    ELSE IF Len(t) >= 2 /\ t[1] = 42 /\ t[2] = Dot
    THEN IF Len(t) = 2 THEN [ok |-> TRUE, wild |-> TRUE, name |-> << <<>> >>]
         ELSE LET d == Domain(origin, hasOrigin, SubSeq(t, 3, Len(t))) IN
              [ok |-> d.ok, wild |-> TRUE, name |-> d.name]
    ELSE LET d == Domain(origin, hasOrigin, t) IN [ok |-> d.ok, wild |-> FALSE, name |-> d.name]

TypeNames == << <<"A", <<65>>>>, <<"NS", <<78, 83>>>>, <<"MD", <<77, 68>>>>, <<"MF", <<77, 70>>>>,
               <<"CNAME", <<67, 78, 65, 77, 69>>>>, <<"SOA", <<83, 79, 65>>>>, <<"MB", <<77, 66>>>>,
               <<"MG", <<77, 71>>>>, <<"MR", <<77, 82>>>>, <<"NULL", <<78, 85, 76, 76>>>>,
               <<"WKS", <<87, 75, 83>>>>, <<"PTR", <<80, 84, 82>>>>, <<"HINFO", <<72, 73, 78, 70, 79>>>>,
               <<"MINFO", <<77, 73, 78, 70, 79>>>>, <<"MX", <<77, 88>>>>, <<"TXT", <<84, 88, 84>>>>,
               <<"AAAA", <<65, 65, 65, 65>>>>, <<"SRV", <<83, 82, 86>>>> >>
TypeOf(t) == LET S == { i \in DOMAIN TypeNames : TypeNames[i][2] = t } IN
             IF S = {} THEN "" ELSE TypeNames[CHOOSE i \in S : TRUE][1]
TypeToken(ty) == TypeNames[CHOOSE i \in DOMAIN TypeNames : TypeNames[i][1] = ty][2]

NameTypes1 == {"NS", "MD", "MF", "CNAME", "MB", "MG", "MR", "PTR"}
OctetTypes == {"NULL", "WKS", "HINFO", "TXT"}

NoRdata == [ok |-> FALSE, big |-> FALSE, type |-> "", names |-> <<>>, nums |-> <<>>, raw |-> <<>>, addr |-> ""]
Rdata(ty, names, nums, raw, addr, big) ==
    [ok |-> TRUE, big |-> big, type |-> ty, names |-> names, nums |-> nums, raw |-> raw, addr |-> addr]

\* try_parse_rtype_with_data on the tokens ts (type mnemonic first); exact token counts
TryRdata(origin, hasOrigin, ts, lits) ==
    IF ts = <<>> THEN NoRdata
    ELSE LET ty == TypeOf(ts[1])
             n == Len(ts)
             dom(k) == Domain(origin, hasOrigin, ts[k])
         IN
         IF ty = "A" /\ n = 2
         THEN IF ts[2] \in DOMAIN lits /\ lits[ts[2]].v = 4 THEN Rdata(ty, <<>>, <<>>, <<>>, lits[ts[2]].canon, FALSE) ELSE NoRdata
         ELSE IF ty = "AAAA" /\ n = 2
         THEN IF ts[2] \in DOMAIN lits /\ lits[ts[2]].v = 6 THEN Rdata(ty, <<>>, <<>>, <<>>, lits[ts[2]].canon, FALSE) ELSE NoRdata
         ELSE IF ty \in NameTypes1 /\ n = 2
         THEN IF dom(2).ok THEN Rdata(ty, <<dom(2).name>>, <<>>, <<>>, "", FALSE) ELSE NoRdata
         ELSE IF ty \in OctetTypes /\ n = 2 THEN Rdata(ty, <<>>, <<>>, ts[2], "", FALSE)
         ELSE IF ty = "MINFO" /\ n = 3
         THEN IF dom(2).ok /\ dom(3).ok THEN Rdata(ty, <<dom(2).name, dom(3).name>>, <<>>, <<>>, "", FALSE) ELSE NoRdata
         ELSE IF ty = "MX" /\ n = 3
         THEN LET p == Num16(ts[2]) IN
              IF p.ok /\ dom(3).ok THEN Rdata(ty, <<dom(3).name>>, <<p.val>>, <<>>, "", FALSE) ELSE NoRdata
         ELSE IF ty = "SRV" /\ n = 5
         THEN LET a == Num16(ts[2])  b == Num16(ts[3])  c == Num16(ts[4]) IN
              IF a.ok /\ b.ok /\ c.ok /\ dom(5).ok
              THEN Rdata(ty, <<dom(5).name>>, <<a.val, b.val, c.val>>, <<>>, "", FALSE) ELSE NoRdata
         ELSE IF ty = "SOA" /\ n = 8
         THEN LET v == [k \in 1..5 |-> Num(ts[k + 3])] IN
              IF dom(2).ok /\ dom(3).ok /\ \A k \in 1..5 : v[k].ok
              THEN Rdata(ty, <<dom(2).name, dom(3).name>>, [k \in 1..5 |-> v[k].val], <<>>, "",
                         \E k \in 1..5 : v[k].big)
              ELSE NoRdata
         ELSE NoRdata

-----------------------------------------------------------------------------
(* parse_rr: the position of the type is found from the right              *)

\* result: [ok, big, wild, name, ttl, rd]
RRFail == [ok |-> FALSE, big |-> FALSE, wild |-> FALSE, name |-> <<>>, ttl |-> 0, rd |-> NoRdata]
MkRR(own, ttl, rd, big) ==
    [ok |-> TRUE, big |-> big \/ rd.big, wild |-> own.wild, name |-> own.name,
     ttl |-> IF rd.type = "SOA" THEN rd.nums[5] ELSE ttl, rd |-> rd]

\* prev = [has, wild, name] ; pttl = [has, val]
WithTtlTok(own, t, rd) ==
    LET n == Num(t) IN IF ~own.ok \/ ~n.ok THEN RRFail ELSE MkRR(own, n.val, rd, n.big)
WithPrevTtl(own, pttl, rd) ==
    IF ~own.ok THEN RRFail
    ELSE IF pttl.has THEN MkRR(own, pttl.val, rd, FALSE)
    ELSE IF rd.type = "SOA" THEN MkRR(own, 0, rd, FALSE)
    ELSE RRFail
PrevOwner(prev) == [ok |-> prev.has, wild |-> prev.wild, name |-> prev.name]

ParseRR(origin, hasOrigin, prev, pttl, ts, lits) ==
    LET n == Len(ts)
        own(k) == Owner(origin, hasOrigin, ts[k])
        rd(k) == TryRdata(origin, hasOrigin, SubSeq(ts, k, n), lits)
    IN
    IF n >= 4 /\ rd(4).ok
    THEN IF ts[3] = T_IN THEN WithTtlTok(own(1), ts[2], rd(4))
         ELSE IF ts[2] = T_IN THEN WithTtlTok(own(1), ts[3], rd(4))
         ELSE RRFail
    ELSE IF n >= 3 /\ rd(3).ok
    THEN IF ts[2] = T_IN
         THEN IF AllDigits(ts[1]) THEN WithTtlTok(PrevOwner(prev), ts[1], rd(3))
              ELSE WithPrevTtl(own(1), pttl, rd(3))
         ELSE IF ts[1] = T_IN THEN WithTtlTok(PrevOwner(prev), ts[2], rd(3))
         ELSE WithTtlTok(own(1), ts[2], rd(3))
    ELSE IF n >= 2 /\ rd(2).ok
    THEN IF ts[1] = T_IN THEN WithPrevTtl(PrevOwner(prev), pttl, rd(2))
         ELSE IF AllDigits(ts[1]) THEN WithTtlTok(PrevOwner(prev), ts[1], rd(2))
         ELSE WithPrevTtl(own(1), pttl, rd(2))
    ELSE IF n >= 1 /\ rd(1).ok
    THEN WithPrevTtl(PrevOwner(prev), pttl, rd(1))
    ELSE RRFail

-----------------------------------------------------------------------------
(* Zone::deserialise: entries in sequence, then the zone is built          *)

ZFail == [ok |-> FALSE, big |-> FALSE, apex |-> <<>>, auth |-> FALSE, soa |-> NoRdata, recs |-> {}]
ZBig == [ZFail EXCEPT !.big = TRUE]

MaxU(a, b) == IF a >= b THEN a ELSE b

ZRec(r, ttl) == [name |-> r.name, wild |-> r.wild, type |-> r.rd.type, ttl |-> ttl,
                names |-> r.rd.names, nums |-> r.rd.nums, raw |-> r.rd.raw, addr |-> r.rd.addr]

Build(st) ==
    LET apex == IF st.hasSoa THEN st.soaName ELSE << <<>> >>
        min == IF st.hasSoa THEN st.soa.nums[5] ELSE 0
    IN IF \E r \in st.rrs : ~IsSubdomain(r.name, apex) THEN ZFail
       ELSE [ok |-> TRUE, big |-> FALSE, apex |-> apex, auth |-> st.hasSoa,
             soa |-> IF st.hasSoa THEN st.soa ELSE NoRdata,
             recs |-> { ZRec(r, MaxU(r.ttl, min)) : r \in st.rrs }]

\* st = [origin, hasOrigin, prev, pttl, hasSoa, soaName, soa, rrs]
RECURSIVE Entries(_, _, _, _)
Entries(text, i, st, lits) ==
    LET tk == TokeniseEntry(text, i) IN
    IF tk.err THEN ZFail
    ELSE IF tk.toks = <<>>
    THEN IF tk.next > Len(text) THEN Build(st) ELSE Entries(text, tk.next, st, lits)
    ELSE LET ts == tk.toks IN
         IF ts[1] = T_ORIGIN
         THEN IF Len(ts) # 2 THEN ZFail
              ELSE LET d == Domain(st.origin, st.hasOrigin, ts[2]) IN
                   IF ~d.ok THEN ZFail
                   ELSE Entries(text, tk.next, [st EXCEPT !.origin = d.name, !.hasOrigin = TRUE], lits)
         ELSE IF ts[1] = T_INCLUDE THEN ZFail
         ELSE LET r == ParseRR(st.origin, st.hasOrigin, st.prev, st.pttl, ts, lits) IN
              IF ~r.ok THEN ZFail
              ELSE IF r.big THEN ZBig
              ELSE LET st1 == [st EXCEPT !.prev = [has |-> TRUE, wild |-> r.wild, name |-> r.name],
                                         !.pttl = [has |-> TRUE, val |-> r.ttl]]
                   IN IF r.rd.type = "SOA"
                      THEN IF r.wild \/ st.hasSoa THEN ZFail
                           ELSE Entries(text, tk.next,
                                        [st1 EXCEPT !.hasSoa = TRUE, !.soaName = r.name, !.soa = r.rd], lits)
                      ELSE Entries(text, tk.next, [st1 EXCEPT !.rrs = @ \cup {r}], lits)

ParseZone(text, lits) ==
    Entries(text, 1,
            [origin |-> <<>>, hasOrigin |-> FALSE, prev |-> [has |-> FALSE, wild |-> FALSE, name |-> <<>>],
             pttl |-> [has |-> FALSE, val |-> 0], hasSoa |-> FALSE, soaName |-> <<>>, soa |-> NoRdata, rrs |-> {}],
            lits)

-----------------------------------------------------------------------------
(* Zone::serialise (code-shaped: zones/serialise.rs).  `atext` maps a       *)
(* canonical address string to its code points (strings cannot be indexed). *)

CONSTANT BuggyF9     \* TRUE = serialise_domain before fix F9 (a relative name "@" written as "@")

Digit(d) == 48 + d
RECURSIVE Digits(_)
Digits(n) == IF n < 10 THEN <<Digit(n)>> ELSE Digits(n \div 10) \o <<Digit(n % 10)>>

\* serialise_octets
EscOct(o, quoted) ==
    IF o \in {34, 92, 59, 40, 41} THEN <<92, o>>
    ELSE IF o < 32 \/ o > 126 \/ (o = 32 /\ ~quoted)
    THEN <<92, Digit((o \div 100) % 10), Digit((o \div 10) % 10), Digit(o % 10)>>
    ELSE <<o>>
RECURSIVE EscAll(_, _)
EscAll(os, quoted) == IF os = <<>> THEN <<>> ELSE EscOct(os[1], quoted) \o EscAll(Tail(os), quoted)
SerOctets(os, quoted) == IF quoted THEN <<34>> \o EscAll(os, TRUE) \o <<34>> ELSE EscAll(os, FALSE)

\* to_dotted_string of a label list WITHOUT root label: labels joined by dots, no final dot
RECURSIVE JoinDots(_)
JoinDots(ls) == IF ls = <<>> THEN <<>> ELSE IF Len(ls) = 1 THEN ls[1] ELSE ls[1] \o <<Dot>> \o JoinDots(Tail(ls))

\* serialise_domain
SerDomain(z, name) ==
    LET rel == SubSeq(name, 1, Len(name) - Len(z.apex)) IN
    IF z.apex = << <<>> >> \/ ~z.auth \/ ~IsSubdomain(name, z.apex) THEN EscAll(ToDotted(name), FALSE)
    ELSE IF name = z.apex THEN <<64>>
    ELSE IF ~BuggyF9 /\ JoinDots(rel) = <<64>> THEN EscAll(ToDotted(name), FALSE)   \* "@" would read as the apex
    ELSE EscAll(JoinDots(rel), FALSE)

RECURSIVE SerNames(_, _)
SerNames(z, ns) == IF ns = <<>> THEN <<>> ELSE <<32>> \o SerDomain(z, ns[1]) \o SerNames(z, Tail(ns))
RECURSIVE SerNums(_)
SerNums(ns) == IF ns = <<>> THEN <<>> ELSE <<32>> \o Digits(ns[1]) \o SerNums(Tail(ns))

\* serialise_rdata, with a leading blank
SerRdata(z, r, atext) ==
    IF r.type \in {"A", "AAAA"} THEN <<32>> \o atext[r.addr]
    ELSE IF r.type \in OctetTypes THEN <<32>> \o SerOctets(r.raw, TRUE)
    ELSE IF r.type \in {"MX", "SRV"} THEN SerNums(r.nums) \o SerNames(z, r.names)
    ELSE SerNames(z, r.names) \o SerNums(r.nums)          \* name types, MINFO, SOA

SerRecord(z, r, hasWild, atext) ==
    (IF r.wild THEN <<42, Dot>> \o SerDomain(z, r.name)
     ELSE SerDomain(z, r.name) \o (IF hasWild THEN <<32, 32>> ELSE <<>>))
    \o <<32>> \o Digits(r.ttl) \o <<32, 73, 78, 32>> \o TypeToken(r.type) \o SerRdata(z, r, atext) \o <<LF>>

RECURSIVE SerSet(_, _, _, _)
SerSet(z, rs, hasWild, atext) ==
    IF rs = {} THEN <<>>
    ELSE LET r == CHOOSE x \in rs : TRUE IN SerRecord(z, r, hasWild, atext) \o SerSet(z, rs \ {r}, hasWild, atext)

RECURSIVE SerDomains(_, _, _)
SerDomains(z, ds, atext) ==
    IF ds = {} THEN <<>>
    ELSE LET d == CHOOSE x \in ds : TRUE
             plain == { r \in z.recs : r.name = d /\ ~r.wild }
             wild == { r \in z.recs : r.name = d /\ r.wild }
         IN SerSet(z, plain, wild # {}, atext) \o SerSet(z, wild, FALSE, atext) \o <<LF>> \o SerDomains(z, ds \ {d}, atext)

\* z = [apex, auth, soa (rdata record), recs]
Serialise(z, atext) ==
    LET showOrigin == z.apex # << <<>> >>
        apexText == EscAll(ToDotted(z.apex), FALSE)
        head == IF ~z.auth THEN <<>>
                ELSE (IF showOrigin THEN <<36, 79, 82, 73, 71, 73, 78, 32>> \o apexText \o <<LF, LF>> ELSE <<>>)
                     \o (IF showOrigin THEN <<64>> ELSE apexText) \o <<32, 73, 78, 32, 83, 79, 65>>
                     \o SerNames(z, z.soa.names) \o SerNums(z.soa.nums) \o <<LF, LF>>
    IN head \o SerDomains(z, { r.name : r \in z.recs }, atext)

=============================================================================
