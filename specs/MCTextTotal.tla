----------------------------- MODULE MCTextTotal -----------------------------
(* C17 at small scope: the two character-driven parsers are TOTAL - for every  *)
(* string over a class alphabet the specification's zone parser and hosts      *)
(* parser yield a verdict (every (state, character class) pair has an arm and  *)
(* each step consumes input, so the recursion ends).  Every string is printed  *)
(* for replay into the real parsers (GEN).                                     *)
EXTENDS ZoneText, Json

CONSTANTS MaxLen

VARIABLE s
vars == <<s>>

H == INSTANCE HostsText WITH BuggyHosts <- FALSE

\* newline, blank, tab, ';', '(', ')', '"', '\', digit, letter, '.', '@', '*', '$', '#', '%', non-ASCII, NUL, NBSP
ZAlphabet == {10, 32, 59, 40, 41, 34, 92, 49, 65, 46, 64, 42, 36, 233, 0}
Lits == [t \in {<<49>>} |-> [v |-> 4, canon |-> "0.0.0.1"]]

Init == s = <<>>
Next == Len(s) < MaxLen /\ \E c \in ZAlphabet : s' = Append(s, c)
Spec == Init /\ [][Next]_vars

Inv_C17_ZoneTotal == ParseZone(s, Lits).ok \in BOOLEAN
Inv_C17_HostsTotal == H!ParseHosts(s, Lits).ok \in BOOLEAN
\* the code-shaped hosts machine and hosts(5) agree on every line of the text as well
Inv_C17_HostsLines == \A i \in DOMAIN H!Lines(s, <<>>, <<>>) :
                          LET ln == H!Lines(s, <<>>, <<>>)[i] IN H!ParseLine(ln, Lits) = H!Hosts5(ln, Lits)

Inv_Gen == PrintT(<<"GENTEXT", ToJson([text |-> s, zone_ok |-> ParseZone(s, Lits).ok, hosts_ok |-> H!ParseHosts(s, Lits).ok])>>)
=============================================================================
