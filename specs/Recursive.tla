------------------------------- MODULE Recursive -------------------------------
(***************************************************************************)
(* The recursive resolver as a state machine                               *)
(* (crates/dns-resolver/src/recursive.rs; util/nameserver.rs               *)
(* query_nameserver).  CODE-SHAPED: one action per stretch of code between *)
(* two suspension points (an upstream exchange or a nested resolution),    *)
(* an explicit stack of frames for the async recursion, the shared cache,  *)
(* the question stack of the request context.                              *)
(*                                                                         *)
(* Frames                                                                  *)
(*   R  resolve_recursive_notimeout(q)                                     *)
(*        pc = enter      nothing done yet                                 *)
(*             loop       in the candidate loop                            *)
(*             wait_ip    resolve_hostname_to_ip(.., false, cand) running  *)
(*             udp, tcp   query_nameserver(ip, q) about to send            *)
(*             wait_cname resolve_combined_recursive(prefix, ..) running   *)
(*   I  resolve_hostname_to_ip(locally = false, host): one nested          *)
(*        resolution per record type, preferred family first               *)
(*   F  resolve_forwarding_notimeout(q) (forwarding.rs), env.mode =        *)
(*        "forwarding": enter, udp / tcp (to env.forwarder), wait_cname    *)
(*                                                                         *)
(* The environment is the parameter of Exchange: the reply that arrives    *)
(* (or none).  MCRecursive draws it from a universe (module Universe) and  *)
(* a fault budget; RecursiveTrace takes it from a recorded exchange.       *)
(*                                                                         *)
(* Orders the code leaves to hash maps / vectors built from them (the      *)
(* order of candidate name servers, which of several addresses of one      *)
(* type is first) are choices here, so every order is explored.            *)
(***************************************************************************)
EXTENDS Validate

CONSTANT BuggyF15       \* TRUE = before fix F15: the closest cached NS set is used even when every one of its name
                        \* servers is a host whose address is being resolved right now

VARIABLES env,          \* the configuration, never changed: [local |-> the local zones (root hints, overrides, ...),
                        \*   protocol |-> "only-v4" | "prefer-v4" | "prefer-v6" | "only-v6"]  (a variable so that one
                        \*   trace-validation run can hold scenarios with different configurations)
                        \*   mode |-> "recursive" | "forwarding", forwarder |-> address of the forwarder
          now,          \* the time (ms) as far as the cache is concerned; only the environment advances it
          cache,        \* set of records [name, type, data, target, ttl, exp]: exp = time of insertion + TTL
          stack,        \* sequence of frames, the running one last
          ret,          \* value returned by the frame that has just finished
          cur           \* the client's question being resolved (NoQ when idle)

rvars == <<cache, stack, ret, cur>>
Local == env.local
Protocol == env.protocol

NoQ == [name |-> <<"-">>, type |-> "NONE"]
NoRes == Res("Err", <<>>, NoRR, "")
NoRet == [has |-> FALSE, ok |-> FALSE, res |-> NoRes, ip |-> "", ipt |-> ""]
RetRes(r) == [has |-> TRUE, ok |-> TRUE, res |-> r, ip |-> "", ipt |-> ""]
RetErr(e) == [has |-> TRUE, ok |-> FALSE, res |-> Res("Err", <<>>, NoRR, e), ip |-> "", ipt |-> ""]
RetIp(ip, t) == [has |-> TRUE, ok |-> TRUE, res |-> NoRes, ip |-> ip, ipt |-> t]
RetNoIp == [has |-> TRUE, ok |-> FALSE, res |-> NoRes, ip |-> "", ipt |-> ""]

Frame(kind, pc, q, host, rtypes) ==
    [kind |-> kind, pc |-> pc, q |-> q, combined |-> <<>>, cands |-> {}, next |-> {}, mc |-> 0, locally |-> TRUE,
     cand |-> host, ip |-> "", ipt |-> "", prefix |-> <<>>, rtypes |-> rtypes]

Rtypes == CASE Protocol = "only-v4" -> <<"A">>
            [] Protocol = "prefer-v4" -> <<"A", "AAAA">>
            [] Protocol = "prefer-v6" -> <<"AAAA", "A">>
            [] Protocol = "only-v6" -> <<"AAAA">>

RFrame(q) == Frame("R", "enter", q, <<>>, <<>>)
FFrame(q) == Frame("F", "enter", q, <<>>, <<>>)
IFrame(host) == Frame("I", "next", NoQ, host, Rtypes)

Top == stack[Len(stack)]
SetTop(f) == [stack EXCEPT ![Len(stack)] = f]
Pop == SubSeq(stack, 1, Len(stack) - 1)

\* the question stack of the request context: a frame has pushed its question once it is past `enter`
QStackOf(s) ==
    LET idx == SelectSeq([i \in 1..Len(s) |-> i],
                         LAMBDA i : (s[i].kind = "R" /\ s[i].pc # "enter") \/ (s[i].kind = "F" /\ s[i].pc = "wait_cname"))
    IN [k \in 1..Len(idx) |-> s[idx[k]].q]
QStack == QStackOf(stack)

\* what the cache still serves
Live == { r \in cache : r.exp > now }

Stamp(r, t) == [name |-> r.name, type |-> r.type, data |-> r.data, target |-> r.target, ttl |-> r.ttl,
                exp |-> t + r.ttl * 1000]
CacheAdd(c, rrs, t) ==
    LET new == { Stamp(r, t) : r \in SeqRange(rrs) } IN
    { r \in c : ~\E n \in new : n.name = r.name /\ n.type = r.type /\ n.data = r.data } \cup new

-----------------------------------------------------------------------------
(* helpers of recursive.rs                                                 *)

\* candidate_nameservers: the closest enclosing name with locally known NS records
RECURSIVE CandFrom(_, _, _, _)
CandFrom(c, name, qs, k) ==
    IF k > Len(name) THEN [has |-> FALSE, name |-> <<>>, hosts |-> {}]
    ELSE LET n == SubSeq(name, k + 1, Len(name))
             lr == ResolveLocal(Local, c, [name |-> n, type |-> "NS"], qs)
             hosts == IF lr.kind = "done"
                      THEN { lr.rrs[i].target : i \in { j \in DOMAIN lr.rrs : lr.rrs[j].type = "NS" } }
                      ELSE {}
             \* (fix F15) a name server whose own address is being looked up right now cannot be asked for it;
             \* if none is left, go further up, where the glue lives
             usable == IF BuggyF15 THEN hosts
                       ELSE { h \in hosts : ~\E i \in DOMAIN qs : qs[i].name = h /\ qs[i].type \in {"A", "AAAA"} }
         IN IF usable # {} THEN [has |-> TRUE, name |-> n, hosts |-> usable] ELSE CandFrom(c, name, qs, k + 1)

\* get_ip: follow the aliases, then a record of the type at the final name (any of them may come first)
GetIps(rrs, target, t) ==
    LET fc == FollowCnames(rrs, target, "ANY") IN
    IF ~fc.ok THEN {}
    ELSE { rrs[i].data : i \in { j \in DOMAIN rrs : rrs[j].type = t /\ rrs[j].name = fc.final } }

\* resolve_hostname_to_ip(.., true, host): local data and cache only, preferred family first
RECURSIVE LocalIpsFrom(_, _, _, _)
LocalIpsFrom(c, qs, host, ts) ==
    IF ts = <<>> THEN {}
    ELSE LET lr == ResolveLocal(Local, c, [name |-> host, type |-> Head(ts)], qs)
             ips == IF lr.kind = "done" THEN GetIps(lr.rrs, host, Head(ts)) ELSE {}
         IN IF ips # {} THEN { [ip |-> a, t |-> Head(ts)] : a \in ips } ELSE LocalIpsFrom(c, qs, host, Tail(ts))

\* response_matches_request on the reply's RCODE (the other header checks are the environment's "unusable")
RcodeOK(reply) == reply.rcode \in {0, 3}

-----------------------------------------------------------------------------
(* actions                                                                 *)

Return(v) == stack' = Pop /\ ret' = v

\* a client question arrives (lib.rs resolve -> resolve_recursive)
Ask(q) ==
    /\ stack = <<>>
    /\ stack' = <<IF env.mode = "forwarding" THEN FFrame(q) ELSE RFrame(q)>>
    /\ ret' = NoRet /\ cur' = q /\ UNCHANGED cache

\* top of resolve_recursive_notimeout up to the candidate loop
Enter ==
    /\ stack # <<>> /\ Top.kind = "R" /\ Top.pc = "enter" /\ ~ret.has
    /\ UNCHANGED <<cache, cur>>
    /\ LET f == Top  qs == QStack IN
       IF Len(qs) >= Limit THEN Return(RetErr("RecursionLimit"))
       ELSE IF \E i \in DOMAIN qs : qs[i] = f.q THEN Return(RetErr("DuplicateQuestion"))
       ELSE LET lr == ResolveLocal(Local, Live, f.q, qs) IN
            IF lr.kind = "done" THEN Return(RetRes(Res(lr.rk, lr.rrs, lr.soa, "")))
            ELSE IF lr.kind = "cname"
            THEN /\ stack' = Append(SetTop([f EXCEPT !.pc = "wait_cname", !.prefix = lr.rrs]),
                                    RFrame([name |-> lr.cq, type |-> f.q.type]))
                 /\ ret' = NoRet
            ELSE LET cn == IF lr.kind = "delegation" THEN [has |-> TRUE, name |-> lr.dname, hosts |-> lr.hosts]
                           ELSE CandFrom(Live, f.q.name, Append(qs, f.q), 0)
                 IN IF ~cn.has THEN Return(RetErr("DeadEnd"))
                    ELSE /\ stack' = SetTop([f EXCEPT !.pc = "loop", !.cands = cn.hosts, !.next = {}, !.locally = TRUE,
                                                      !.mc = Labels(cn.name),
                                                      !.combined = IF lr.kind = "partial" THEN lr.rrs ELSE <<>>])
                         /\ ret' = NoRet

\* one turn of `while let Some(candidate) = candidate_hostnames.pop()` up to the next suspension point
Pick ==
    /\ stack # <<>> /\ Top.kind = "R" /\ Top.pc = "loop" /\ ~ret.has
    /\ UNCHANGED <<cache, cur>>
    /\ LET f == Top IN
       IF f.cands = {} THEN Return(RetErr("DeadEnd"))
       ELSE \E c \in f.cands :
            LET rest == f.cands \ {c} IN
            IF f.locally
            THEN LET ips == LocalIpsFrom(Live, QStack, c, Rtypes) IN
                 IF ips # {}
                 THEN \E a \in ips :
                        /\ stack' = SetTop([f EXCEPT !.cands = rest, !.cand = c, !.ip = a.ip, !.ipt = a.t, !.pc = "udp"])
                        /\ ret' = NoRet
                 ELSE /\ stack' = SetTop(IF rest = {}
                                         THEN [f EXCEPT !.cands = f.next \cup {c}, !.next = {}, !.locally = FALSE]
                                         ELSE [f EXCEPT !.cands = rest, !.next = @ \cup {c}])
                      /\ ret' = NoRet
            ELSE /\ stack' = Append(SetTop([f EXCEPT !.cands = rest, !.cand = c, !.pc = "wait_ip"]), IFrame(c))
                 /\ ret' = NoRet

\* resolve_hostname_to_ip(.., false, host): the next record type
IpNext ==
    /\ stack # <<>> /\ Top.kind = "I" /\ Top.pc = "next" /\ ~ret.has
    /\ UNCHANGED <<cache, cur>>
    /\ LET f == Top IN
       IF f.rtypes = <<>> THEN Return(RetNoIp)
       ELSE /\ stack' = Append(SetTop([f EXCEPT !.pc = "wait"]), RFrame([name |-> f.cand, type |-> Head(f.rtypes)]))
            /\ ret' = NoRet

IpRet ==
    /\ stack # <<>> /\ Top.kind = "I" /\ Top.pc = "wait" /\ ret.has
    /\ UNCHANGED <<cache, cur>>
    /\ LET f == Top
           ips == IF ret.ok THEN GetIps(ret.res.rrs, f.cand, Head(f.rtypes)) ELSE {}
       IN IF ips # {} THEN \E a \in ips : Return(RetIp(a, Head(f.rtypes)))
          ELSE stack' = SetTop([f EXCEPT !.rtypes = Tail(@), !.pc = "next"]) /\ ret' = NoRet

\* back in the candidate loop with (or without) the candidate's address
IpDone ==
    /\ stack # <<>> /\ Top.kind = "R" /\ Top.pc = "wait_ip" /\ ret.has
    /\ UNCHANGED <<cache, cur>>
    /\ stack' = SetTop(IF ret.ok THEN [Top EXCEPT !.pc = "udp", !.ip = ret.ip, !.ipt = ret.ipt]
                       ELSE [Top EXCEPT !.pc = "loop"])            \* "dropping unresolvable candidate"
    /\ ret' = NoRet

\* what the resolver does with a validated response (resolve_with_nameserver_response and the loop around it)
Handle(f, k, t) ==
    IF k.kind = "none" THEN /\ Return(RetErr("DeadEnd")) /\ UNCHANGED cache
    ELSE /\ cache' = CacheAdd(cache, k.rrs, t)
         /\ IF k.kind = "answer"
            THEN Return(RetRes(Res("NonAuthoritative", PrioMerge(f.combined, k.rrs), k.soa, "")))
            ELSE IF k.kind = "delegation"
            THEN LET glue == IF f.q.type \in {"A", "AAAA"}
                             THEN SelectSeq(k.rrs, LAMBDA r : r.type = f.q.type /\ r.name = f.q.name) ELSE <<>>
                 IN IF glue # <<>> THEN Return(RetRes(Res("NonAuthoritative", PrioMerge(f.combined, glue), NoRR, "")))
                    ELSE /\ stack' = SetTop([f EXCEPT !.mc = Labels(k.dname), !.cands = k.hosts, !.next = {},
                                                      !.locally = TRUE, !.pc = "loop"])
                         /\ ret' = NoRet
            ELSE \* an alias: continue with its target, the records so far in front
                 LET comb == PrioMerge(f.combined, k.rrs) IN
                 /\ stack' = Append(SetTop([f EXCEPT !.pc = "wait_cname", !.prefix = comb]),
                                    RFrame([name |-> k.cname, type |-> f.q.type]))
                 /\ ret' = NoRet

\* one transport attempt of query_nameserver.  usable = a message arrived in time that matches the request
\* (ID, QR, opcode, question, not truncated); reply = [rcode, answers, authority, additional]; t = the time at
\* which the attempt is over (what is cached is stamped with it)
Exchange(tcp, usable, reply, t) ==
    /\ stack # <<>> /\ Top.kind \in {"R", "F"} /\ Top.pc = (IF tcp THEN "tcp" ELSE "udp") /\ ~ret.has
    /\ UNCHANGED cur
    /\ LET f == Top IN
       IF usable /\ RcodeOK(reply)
       THEN IF f.kind = "R" THEN Handle(f, Keep(f.q, f.mc, reply), t)
            ELSE \* forwarding: the whole answer section is taken over; the SOA of a negative answer is passed on
                 /\ cache' = CacheAdd(cache, reply.answers, t)
                 /\ Return(RetRes(Res("NonAuthoritative", PrioMerge(f.combined, reply.answers),
                                       NegativeSoa(f.q, 0, reply).soa, "")))
       ELSE IF ~tcp THEN stack' = SetTop([f EXCEPT !.pc = "tcp"]) /\ ret' = NoRet /\ UNCHANGED cache
       ELSE Return(RetErr("DeadEnd")) /\ UNCHANGED cache

\* resolve_combined_recursive (or the CNAME arm of resolve_forwarding_notimeout) after the nested resolution
CnameRet ==
    /\ stack # <<>> /\ Top.kind \in {"R", "F"} /\ Top.pc = "wait_cname" /\ ret.has
    /\ UNCHANGED <<cache, cur>>
    /\ IF ret.ok THEN Return(RetRes(Res("NonAuthoritative", Top.prefix \o ret.res.rrs, ret.res.soa, "")))
       ELSE Return(RetErr("DeadEnd"))

\* top of resolve_forwarding_notimeout: local data first; delegations are ignored; aliases are followed by a
\* nested forwarding resolution; everything else goes to the forwarder
EnterF ==
    /\ stack # <<>> /\ Top.kind = "F" /\ Top.pc = "enter" /\ ~ret.has
    /\ UNCHANGED <<cache, cur>>
    /\ LET f == Top  qs == QStack IN
       IF Len(qs) >= Limit THEN Return(RetErr("RecursionLimit"))
       ELSE IF \E i \in DOMAIN qs : qs[i] = f.q THEN Return(RetErr("DuplicateQuestion"))
       ELSE LET lr == ResolveLocal(Local, Live, f.q, qs) IN
            IF lr.kind = "done" THEN Return(RetRes(Res(lr.rk, lr.rrs, lr.soa, "")))
            ELSE IF lr.kind = "cname"
            THEN /\ stack' = Append(SetTop([f EXCEPT !.pc = "wait_cname", !.prefix = lr.rrs]),
                                    FFrame([name |-> lr.cq, type |-> f.q.type]))
                 /\ ret' = NoRet
            ELSE /\ stack' = SetTop([f EXCEPT !.pc = "udp", !.ip = env.forwarder,
                                              !.combined = IF lr.kind = "partial" THEN lr.rrs ELSE <<>>])
                 /\ ret' = NoRet

\* the cache loses a record set (expiry, eviction by another request).  Whole sets: the records of one set arrive
\* together and - RFC 2181 5.2 - carry one TTL, so they expire together; eviction removes all records of a name.
\* (With unequal TTLs inside one set the real cache can serve part of it: outside C07's "consistent hierarchy".)
Forget(n, t) ==
    /\ \E r \in cache : r.name = n /\ r.type = t
    /\ cache' = { r \in cache : ~(r.name = n /\ r.type = t) }
    /\ UNCHANGED <<stack, ret, cur>>

\* every cached address record expires at once (the address records of name servers often share one short TTL)
ForgetAddrs ==
    /\ \E r \in cache : r.type \in {"A", "AAAA"}
    /\ cache' = { r \in cache : r.type \notin {"A", "AAAA"} }
    /\ UNCHANGED <<stack, ret, cur>>

Internal == Enter \/ EnterF \/ Pick \/ IpNext \/ IpRet \/ IpDone \/ CnameRet

Finished == stack = <<>> /\ ret.has

-----------------------------------------------------------------------------
(* properties of every reachable state / step                               *)

\* C08: the context's question stack never exceeds the recursion limit and never holds a question twice
StackBounded ==
    /\ Len(QStack) <= Limit
    /\ \A i, j \in DOMAIN QStack : QStack[i] = QStack[j] => i = j

\* C18: a frame about to contact a name server
Preferred == IF Protocol \in {"only-v4", "prefer-v4"} THEN "A" ELSE "AAAA"
HoldsAddr(host, t) ==
    \/ \E z \in Local : \E x \in z.recs : ~x.wild /\ x.name = host /\ x.type = t
    \/ \E x \in Live : x.name = host /\ x.type = t
FamilyOK ==
    \A i \in DOMAIN stack :
        LET f == stack[i] IN
        /\ (f.kind = "R" /\ f.pc \in {"udp", "tcp"}) =>
              /\ Protocol = "only-v4" => f.ipt = "A"
              /\ Protocol = "only-v6" => f.ipt = "AAAA"
              /\ (f.pc = "udp" /\ f.ipt # Preferred) => ~HoldsAddr(f.cand, Preferred)
        \* forwarding: only ever to the configured forwarder
        /\ (f.kind = "F" /\ f.pc \in {"udp", "tcp"}) => f.ip = env.forwarder
        \* a name server's address is looked up for the preferred family first
        /\ f.kind = "I" => \E k \in 0..Len(Rtypes) : f.rtypes = SubSeq(Rtypes, k + 1, Len(Rtypes))

\* Finding F15 (C07, fixed; BuggyF15 = TRUE restores it): name servers that can only be reached through addresses
\* the cache no longer holds.  The resolver took the closest cached NS set and never went back to the parent zone for
\* fresh glue, so when the address records of name servers inside the zone they serve left the cache before the NS
\* records did (shorter TTL, eviction), everything beneath that zone failed until the NS records expired as well.
\* The shape of the cache in which that happened (kept as the description of the finding):
\* Stuck(c) = the owners n of cached NS sets (greatest fixed point) such that every name server t of n has no address
\* in the cache or the local zones, and looking t up leads back into Stuck: the closest cached NS set enclosing t is stuck.
NsOwners(c) == { r.name : r \in { x \in c : x.type = "NS" } }
NsTargets(c, n) == { r.target : r \in { x \in c : x.type = "NS" /\ x.name = n } }
AddrKnown(c, host) ==
    \/ \E x \in c : x.name = host /\ x.type \in {"A", "AAAA"}
    \/ \E z \in Local : \E x \in z.recs : ~x.wild /\ x.name = host /\ x.type \in {"A", "AAAA"}
ClosestOwner(c, host) ==       \* {} or the deepest cached NS owner enclosing host
    LET os == { n \in NsOwners(c) : IsSubdomain(host, n) } IN
    IF os = {} THEN {} ELSE { CHOOSE n \in os : \A m \in os : Len(m) <= Len(n) }
RECURSIVE StuckFrom(_, _)
StuckFrom(c, S) ==
    LET keep == { n \in S : \A t \in NsTargets(c, n) : ~AddrKnown(c, t) /\ ClosestOwner(c, t) \subseteq S /\ ClosestOwner(c, t) # {} }
    IN IF keep = S THEN S ELSE StuckFrom(c, keep)
Stuck(c) == StuckFrom(c, NsOwners(c))
\* the question (or a name met while answering it) lies beneath a stuck NS set
F15Shape(c, names) == \E n \in names : ClosestOwner(c, n) # {} /\ ClosestOwner(c, n) \subseteq Stuck(c)

\* C07: a frame only ever moves to a delegation strictly closer to its question name
CloserStep ==
    \A i \in DOMAIN stack :
        (i <= Len(stack') /\ stack[i].kind = "R" /\ stack'[i].kind = "R" /\ stack[i].q = stack'[i].q
         /\ stack[i].pc \in {"udp", "tcp"} /\ stack'[i].pc = "loop")
        => stack'[i].mc > stack[i].mc

=============================================================================
