------------------------------- MODULE MCServer -------------------------------
(* C09 at small scope: every request over header flags x opcodes x question    *)
(* counts x names (existing, missing, alias, delegated, large, unserved) x     *)
(* known / unknown types and classes, plus every truncation of a query to      *)
(* 0..13 octets.  The expected reaction of the server (module Server) is        *)
(* checked for sanity and every request is printed for replay against the       *)
(* running binary (GEN).                                                        *)
EXTENDS Server, Json, IOUtils

\* the test configuration [authOnly, zones, rdmap]: the same JSON line the driver gives to the real server's trace
ZoneOf(zj) ==
    LET min == IF zj.auth THEN zj.soa.ttl ELSE 0
        base == [apex |-> zj.apex, auth |-> zj.auth, min |-> min, soa |-> zj.soa,
                 recs |-> IF zj.auth THEN {zj.soa} ELSE {}]
    IN [base EXCEPT !.recs = @ \cup { [r EXCEPT !.ttl = MaxOf(r.ttl, min)]
                                        : r \in { x \in Range(zj.recs) : x.type # "SOA" } }]
CfgJson == ndJsonDeserialize(IOEnv.CONFIG)[1]
Cfg == [authOnly |-> CfgJson.auth_only, mode |-> CfgJson.mode,
        zones |-> { ZoneOf(CfgJson.zones[i]) : i \in DOMAIN CfgJson.zones }, rdmap |-> CfgJson.rdmap]

VARIABLES req, stage
vars == <<req, stage>>

L(s) == s   \* labels are written as octet sequences below
lan == <<108, 97, 110>>
Names == { << <<119, 119, 119>>, lan >>,        \* www.lan    exists
           << <<110, 120>>, lan >>,             \* nx.lan     does not exist
           << <<97, 108, 105, 97, 115>>, lan >>,   \* alias.lan  CNAME chain
           << <<120>>, <<115, 117, 98>>, lan >>,   \* x.sub.lan  beneath a delegation
           << <<98, 105, 103>>, lan >>,         \* big.lan    large record set
           << <<111, 116, 104, 101, 114>> >> }  \* other.     no zone

Msg(qr, opcode, rd, bits, qs) ==
    [id |-> 4660 + opcode, qr |-> qr, opcode |-> opcode, aa |-> bits, tc |-> FALSE, rd |-> rd, ra |-> bits, rcode |-> IF bits THEN 3 ELSE 0,
     questions |-> qs, answers |-> <<>>, authority |-> <<>>, additional |-> <<>>]

Question(n, t, c) == [name |-> n, qtype |-> t, qclass |-> c]

Messages ==
    { Msg(qr, op, rd, bits, qs) :
        qr \in BOOLEAN, op \in {0, 1, 2, 15}, rd \in BOOLEAN, bits \in BOOLEAN,
        qs \in { <<>> } \cup { <<Question(n, t, c)>> : n \in Names, t \in {1, 16, 255, 252, 99}, c \in {1, 255, 3} }
                  \cup { <<Question(n, 1, 1), Question(n, 16, 1)>> : n \in Names } }

Init == stage = "msg" /\ req \in { W!Encode(m) : m \in Messages }
\* every truncation to 0..13 octets, and one octet of garbage appended
Next == /\ stage = "msg"
        /\ stage' = "cut"
        /\ \/ \E k \in 0..13 : k < Len(req) /\ req' = SubSeq(req, 1, k)
           \/ req' = Append(req, 255)
Spec == Init /\ [][Next]_vars

X == Expected(req, Cfg)

Inv_C09_Sane ==
    /\ X.reply => (X.hdr.qr /\ X.hdr.id = req[1] * 256 + req[2] /\ ~X.hdr.tc)
    /\ Len(req) < 2 => ~X.reply
    /\ (Len(req) >= 2 /\ Len(req) < 12) => (X.reply /\ X.hdr.rcode = 1)
    /\ X.reply => X.hdr.rcode \in {0, 1, 2, 3, 4, 5}
    /\ (X.reply /\ X.hdr.rcode \in {1, 2, 4, 5}) => (X.answers = {} /\ X.authority = {} /\ ~X.hdr.aa)

Inv_Gen == PrintT(<<"GENREQ", ToJson([req |-> req, reply |-> X.reply,
                                       rcode |-> IF X.reply THEN X.hdr.rcode ELSE 99])>>)
=============================================================================
