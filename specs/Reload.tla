-------------------------------- MODULE Reload --------------------------------
(***************************************************************************)
(* SIGUSR1 reload of the configuration (crates/resolved/src/main.rs         *)
(* reload_task, fs.rs load_zone_configuration): property C19.               *)
(*                                                                          *)
(* Code-shaped model: the reload task reads the files one at a time (each   *)
(* read sees the disk as it is at that moment), gives up at the first bad   *)
(* file (nothing is swapped), otherwise takes the write lock of the tokio   *)
(* RwLock (write-preferring: readers arriving after a waiting writer wait)  *)
(* and swaps the whole configuration.  A request holds the read lock from   *)
(* its start to its reply, so it sees one configuration.                    *)
(*                                                                          *)
(* disk[f] is the version of file f on disk ("bad" = unreadable/invalid);   *)
(* a configuration is a function file -> version.                           *)
(***************************************************************************)
EXTENDS Naturals, FiniteSets, Sequences, TLC

CONSTANTS Files, Versions, Clients, MaxEdits, MaxSignals

VARIABLES disk, current, reload, loaded, toLoad, pendingSig, writerWaiting, readers,
          client, answers, edits, signals,
          settled     \* history: a SIGUSR1 was sent after the last edit of the disk (nothing changed since)

vars == <<disk, current, reload, loaded, toLoad, pendingSig, writerWaiting, readers, client, answers, edits, signals, settled>>

Bad == 99

Init ==
    /\ disk = [f \in Files |-> 1]
    /\ current = [f \in Files |-> 1]
    /\ reload = "idle"            \* idle | loading | swapping
    /\ loaded = [f \in Files |-> 0]
    /\ toLoad = {}
    /\ pendingSig = FALSE
    /\ writerWaiting = FALSE
    /\ readers = {}
    /\ client = [c \in Clients |-> [state |-> "idle", saw |-> <<>>, since |-> {}]]
    /\ answers = {}               \* [cfg (what the reply showed), allowed (configurations current during the request)]
    /\ edits = 0
    /\ signals = 0
    /\ settled = TRUE              \* the server starts from what is on disk

Edit(f, v) ==
    /\ edits < MaxEdits
    /\ disk' = [disk EXCEPT ![f] = v]
    /\ edits' = edits + 1
    /\ settled' = FALSE
    /\ UNCHANGED <<current, reload, loaded, toLoad, pendingSig, writerWaiting, readers, client, answers, signals>>

Signal ==
    /\ signals < MaxSignals
    /\ signals' = signals + 1
    /\ pendingSig' = TRUE           \* tokio's signal stream coalesces: one notification however many signals
    /\ settled' = TRUE
    /\ UNCHANGED <<disk, current, reload, loaded, toLoad, writerWaiting, readers, client, answers, edits>>

StartReload ==
    /\ reload = "idle" /\ pendingSig
    /\ pendingSig' = FALSE
    /\ reload' = "loading"
    /\ toLoad' = Files
    /\ UNCHANGED <<disk, current, loaded, writerWaiting, readers, client, answers, edits, signals, settled>>

\* one file is read; a bad file ends the reload without touching the configuration
LoadFile(f) ==
    /\ reload = "loading" /\ f \in toLoad
    /\ IF disk[f] = Bad
       THEN /\ reload' = "idle" /\ toLoad' = {} /\ UNCHANGED <<loaded, writerWaiting>>
       ELSE /\ loaded' = [loaded EXCEPT ![f] = disk[f]]
            /\ toLoad' = toLoad \ {f}
            /\ IF toLoad' = {} THEN reload' = "swapping" /\ writerWaiting' = TRUE
               ELSE UNCHANGED <<reload, writerWaiting>>
    /\ UNCHANGED <<disk, current, pendingSig, readers, client, answers, edits, signals, settled>>

\* the write lock is granted when no reader holds the lock
Swap ==
    /\ reload = "swapping" /\ readers = {}
    /\ current' = loaded
    /\ reload' = "idle"
    /\ writerWaiting' = FALSE
    /\ client' = [c \in Clients |-> IF client[c].state = "waiting"
                                     THEN [client[c] EXCEPT !.since = @ \cup {loaded}] ELSE client[c]]
    /\ UNCHANGED <<disk, loaded, toLoad, pendingSig, readers, answers, edits, signals, settled>>

\* a request arrives; it gets the read lock unless a writer waits (then it queues behind the writer)
Arrive(c) ==
    /\ client[c].state = "idle"
    /\ client' = [client EXCEPT ![c] = [state |-> "waiting", saw |-> <<>>, since |-> {current}]]
    /\ UNCHANGED <<disk, current, reload, loaded, toLoad, pendingSig, writerWaiting, readers, answers, edits, signals, settled>>

Acquire(c) ==
    /\ client[c].state = "waiting" /\ ~writerWaiting
    /\ readers' = readers \cup {c}
    /\ client' = [client EXCEPT ![c].state = "reading", ![c].saw = current]
    /\ UNCHANGED <<disk, current, reload, loaded, toLoad, pendingSig, writerWaiting, answers, edits, signals, settled>>

Reply(c) ==
    /\ client[c].state = "reading"
    /\ readers' = readers \ {c}
    /\ answers' = answers \cup {[cfg |-> client[c].saw, allowed |-> client[c].since]}
    /\ client' = [client EXCEPT ![c] = [state |-> "idle", saw |-> <<>>, since |-> {}]]
    /\ UNCHANGED <<disk, current, reload, loaded, toLoad, pendingSig, writerWaiting, edits, signals, settled>>

Next ==
    \/ \E f \in Files, v \in Versions \cup {Bad} : Edit(f, v)
    \/ Signal \/ StartReload \/ Swap
    \/ \E f \in Files : LoadFile(f)
    \/ \E c \in Clients : Arrive(c) \/ Acquire(c) \/ Reply(c)

Fairness == /\ WF_vars(StartReload) /\ WF_vars(Swap) /\ \A f \in Files : WF_vars(LoadFile(f))
            /\ \A c \in Clients : WF_vars(Acquire(c)) /\ WF_vars(Reply(c))
Spec == Init /\ [][Next]_vars /\ Fairness

\* C19: a reply reflects exactly one configuration that was current between arrival and reply
Inv_C19_Atomic == \A a \in answers : a.cfg \in a.allowed
\* the configuration in force is always a whole snapshot without bad files
Inv_C19_Whole == \A f \in Files : current[f] # Bad /\ current[f] # 0
\* C19: a reload that meets a bad file leaves the configuration as it was (action property)
Prop_C19_AllOrNothing ==
    [][(current' # current) => (reload = "swapping" /\ current' = loaded)]_vars
\* C19: "if every file loads, later answers reflect the new files only": once a signal has been sent after the last
\* edit, the reload task has come to rest and every file on disk is good, the configuration in force IS the disk.
\* (A signal that arrives while a reload is loading is not lost: the stream keeps one pending notification and the
\* task reloads again; a model in which StartReload consumed the notification at the END of a reload fails this.)
AtRest == reload = "idle" /\ ~pendingSig
Inv_C19_Fresh == (settled /\ AtRest /\ \A f \in Files : disk[f] # Bad) => current = disk
\* convergence: a settled, good disk is eventually in force (needs the fairness of the reload task and of readers)
Prop_C19_Converges == [](settled /\ (\A f \in Files : disk[f] # Bad) => <>(current = disk \/ ~settled))
\* C19: the server keeps answering: a request that arrived is eventually answered
Prop_C19_Live == \A c \in Clients : (client[c].state # "idle") ~> (client[c].state = "idle")

=============================================================================
