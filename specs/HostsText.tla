------------------------------ MODULE HostsText ------------------------------
(***************************************************************************)
(* Hosts files (property C14).                                             *)
(*                                                                         *)
(* Text is a sequence of code points.  Address literals are not parsed by  *)
(* the specification: every case carries a dictionary `lits` that maps the *)
(* literal tokens occurring in it to [v |-> 4 or 6, canon |-> string];     *)
(* a first field that is not in the dictionary is a malformed address.     *)
(* (The generators render known addresses into text, so they know.)        *)
(*                                                                         *)
(*  Hosts5(line, lits)    - DECLARATIVE: hosts(5) as property C14 reads it *)
(*  ParseLine(line, lits) - CODE-SHAPED: the character machine of          *)
(*                          hosts/deserialise.rs parse_line                *)
(* Both yield [kind |-> "none"] | [kind |-> "error"] |                     *)
(*            [kind |-> "map", v, addr, names (set of label sequences)]    *)
(***************************************************************************)
EXTENDS NameOctets, TLC

CONSTANT BuggyHosts      \* TRUE = parse_line before fixes F10 / F12

Blank(c) == c \in {9, 11, 12, 13, 32}
Hash == 35
Percent == 37
IsAscii(c) == c < 128

None == [kind |-> "none"]
Error == [kind |-> "error"]
Map(lit, names) == [kind |-> "map", v |-> lit.v, addr |-> lit.canon, names |-> names]

\* a host name is taken relative to the root: "foo" and "foo." are the same name
HostName(tok) == IF \E i \in DOMAIN tok : ~IsAscii(tok[i]) THEN NoName
                 ELSE FromRelative(<< <<>> >>, tok)

-----------------------------------------------------------------------------
(* Declarative                                                             *)

\* the line up to (excluding) the first '#'
RECURSIVE Body(_)
Body(s) == IF s = <<>> \/ s[1] = Hash THEN <<>> ELSE <<s[1]>> \o Body(Tail(s))

\* maximal runs of non-blank characters
RECURSIVE Fields(_, _, _)
Fields(s, cur, acc) ==
    IF s = <<>> THEN (IF cur = <<>> THEN acc ELSE Append(acc, cur))
    ELSE IF Blank(s[1]) THEN Fields(Tail(s), <<>>, IF cur = <<>> THEN acc ELSE Append(acc, cur))
    ELSE Fields(Tail(s), Append(cur, s[1]), acc)

Hosts5(line, lits) ==
    LET f == Fields(Body(line), <<>>, <<>>) IN
    IF Len(f) <= 1 THEN None                                      \* blank or address-only
    ELSE IF \E i \in 2..Len(f[1]) : f[1][i] = Percent THEN None    \* address with interface suffix: skipped
    ELSE IF f[1] \notin DOMAIN lits THEN Error                    \* maps names, malformed address
    ELSE LET ns == { HostName(f[i]) : i \in 2..Len(f) } IN
         IF \E n \in ns : ~n.ok THEN Error                        \* malformed name
         ELSE Map(lits[f[1]], { n.name : n \in ns })

-----------------------------------------------------------------------------
(* Code-shaped: one step per character, states as in the Rust enum         *)

\* st = [state, start, addr (literal record), as ("none" | "ok" | "bad"), names, res ("run" | "break" | "error")]
Step(line, lits, st, i) ==
    LET c == line[i] IN
    IF BuggyHosts /\ ~IsAscii(c) THEN [st EXCEPT !.res = "error"]
    ELSE IF c = Hash
    THEN IF BuggyHosts THEN [st EXCEPT !.state = "Comment"]
         ELSE \* fixed: a name being read is flushed before the comment starts
              IF st.state = "ReadingName"
              THEN LET n == HostName(SubSeq(line, st.start, i - 1)) IN
                   IF ~n.ok THEN [st EXCEPT !.res = "error"]
                   ELSE IF st.as = "bad" THEN [st EXCEPT !.res = "error"]
                   ELSE [st EXCEPT !.names = @ \cup {n.name}, !.state = "Comment"]
              ELSE [st EXCEPT !.state = "Comment"]
    ELSE IF st.state = "Comment" THEN [st EXCEPT !.res = "break"]
    ELSE IF ~IsAscii(c) /\ st.state \in {"SkipToName", "ReadingName"} THEN [st EXCEPT !.res = "error"]
    ELSE IF st.state = "SkipToAddress"
    THEN IF Blank(c) THEN st ELSE [st EXCEPT !.state = "ReadingAddress", !.start = i]
    ELSE IF st.state = "ReadingAddress"
    THEN IF c = Percent THEN [st EXCEPT !.res = "break"]
         ELSE IF Blank(c)
         THEN LET tok == SubSeq(line, st.start, i - 1) IN
              IF tok \in DOMAIN lits THEN [st EXCEPT !.addr = lits[tok], !.as = "ok", !.state = "SkipToName"]
              ELSE IF BuggyHosts THEN [st EXCEPT !.res = "error"]
              ELSE [st EXCEPT !.as = "bad", !.state = "SkipToName"]   \* fixed: only an error if names follow
         ELSE st
    ELSE IF st.state = "SkipToName"
    THEN IF Blank(c) THEN st ELSE [st EXCEPT !.state = "ReadingName", !.start = i]
    ELSE \* ReadingName
         IF Blank(c)
         THEN LET n == HostName(SubSeq(line, st.start, i - 1)) IN
              IF ~n.ok \/ st.as = "bad" THEN [st EXCEPT !.res = "error"]
              ELSE [st EXCEPT !.names = @ \cup {n.name}, !.state = "SkipToName"]
         ELSE st

RECURSIVE Run(_, _, _, _)
Run(line, lits, st, i) ==
    IF st.res # "run" THEN st
    ELSE IF i > Len(line) THEN st
    ELSE Run(line, lits, Step(line, lits, st, i), i + 1)

ParseLine(line, lits) ==
    LET st0 == [state |-> "SkipToAddress", start |-> 0, addr |-> [v |-> 4, canon |-> "127.0.0.1"], as |-> "none",
                names |-> {}, res |-> "run"]
        st == Run(line, lits, st0, 1)
    IN IF st.res = "error" THEN Error
       ELSE LET fin == IF st.state = "ReadingName" /\ st.res = "run"
                       THEN LET n == HostName(SubSeq(line, st.start, Len(line))) IN
                            IF ~n.ok \/ st.as = "bad" THEN [st EXCEPT !.res = "error"]
                            ELSE [st EXCEPT !.names = @ \cup {n.name}]
                       ELSE st
            IN IF fin.res = "error" THEN Error
               ELSE IF fin.names = {} THEN None
               ELSE Map(fin.addr, fin.names)

-----------------------------------------------------------------------------
(* Files: a later mapping for the same name and family replaces an earlier *)

\* hosts = set of [name, v, addr]; at most one per (name, v)
Apply(hosts, r) ==
    IF r.kind # "map" THEN hosts
    ELSE { h \in hosts : ~(h.v = r.v /\ h.name \in r.names) }
         \cup { [name |-> n, v |-> r.v, addr |-> r.addr] : n \in r.names }

RECURSIVE FoldLines(_, _, _)
FoldLines(lines, lits, hosts) ==
    IF lines = <<>> THEN [ok |-> TRUE, hosts |-> hosts]
    ELSE LET r == Hosts5(lines[1], lits) IN
         IF r.kind = "error" THEN [ok |-> FALSE, hosts |-> {}]
         ELSE FoldLines(Tail(lines), lits, Apply(hosts, r))

\* split text into lines as str::lines does: at LF, dropping a CR before it
RECURSIVE Lines(_, _, _)
Lines(s, cur, acc) ==
    IF s = <<>> THEN (IF cur = <<>> THEN acc ELSE Append(acc, cur))
    ELSE IF s[1] = 10
    THEN Lines(Tail(s), <<>>,
               Append(acc, IF cur # <<>> /\ cur[Len(cur)] = 13 THEN SubSeq(cur, 1, Len(cur) - 1) ELSE cur))
    ELSE Lines(Tail(s), Append(cur, s[1]), acc)

ParseHosts(text, lits) == FoldLines(Lines(text, <<>>, <<>>), lits, {})

=============================================================================
