SPECIFICATION Spec
CONSTANTS
  BuggyF1 = FALSE
  Limit = 32
POSTCONDITION Accepted
CHECK_DEADLOCK FALSE
