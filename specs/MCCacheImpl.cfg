SPECIFICATION Spec
CONSTANTS
  NameSet = {"n1", "n2"}
  TypeSet = {"A", "B"}
  DataSet = {"d1"}
  TtlSet = {0, 1, 2}
  Desired = 2
  TickMs = 500
  Tmax = 3000
  BuggyF11 = FALSE
VIEW view
INVARIANTS Inv_C15_Counts Inv_C15_NextExpiry Inv_C15_Terminates
PROPERTIES Prop_C05_C15_Refines
CHECK_DEADLOCK FALSE
