----------------------------- MODULE MCZoneText -----------------------------
(***************************************************************************)
(* C11: a generative grammar for master files.  A behaviour renders a zone *)
(* file one entry at a time and carries the DENOTATION of what it wrote    *)
(* (what RFC 1035 section 5 says the text means); every state is checked:  *)
(*     ParseZone(text) = denotation.                                       *)
(* Variants per entry: owner explicit absolute / relative / "@" / omitted  *)
(* / wildcard; TTL and class in either order or omitted (inherited);       *)
(* layout plain / parenthesised over several lines / parentheses written   *)
(* against a token / trailing comment; $ORIGIN changes; quoted strings,    *)
(* \X and \DDD escapes.  Fault actions append one ill-formed entry and     *)
(* require rejection.                                                      *)
(***************************************************************************)
EXTENDS ZoneText, Json, SequencesExt

CONSTANTS MaxEntries, Layouts

VARIABLES text, den, ctx, n, faulty
vars == <<text, den, ctx, n, faulty>>

\* ---- small vocabulary (code points) ----
SP == <<32>>
NL == <<10>>
c_lan == <<108, 97, 110>>                 \* lan
c_lanD == <<108, 97, 110, 46>>            \* lan.
c_www == <<119, 119, 119>>                \* www
c_wwwlanD == <<119, 119, 119, 46, 108, 97, 110, 46>>
c_ns == <<110, 115>>                      \* ns
c_300 == <<51, 48, 48>>
c_60 == <<54, 48>>
c_IN == <<73, 78>>
c_A == <<65>>
c_ip1 == <<49, 48, 46, 48, 46, 48, 46, 49>>       \* 10.0.0.1
c_ip2 == <<49, 48, 46, 48, 46, 48, 46, 50>>       \* 10.0.0.2
c_CNAME == <<67, 78, 65, 77, 69>>
c_MX == <<77, 88>>
c_TXT == <<84, 88, 84>>
c_SOA == <<83, 79, 65>>

Lits == [t \in {c_ip1, c_ip2} |-> IF t = c_ip1 THEN [v |-> 4, canon |-> "10.0.0.1"] ELSE [v |-> 4, canon |-> "10.0.0.2"]]

N_lan == << c_lan, <<>> >>
N_www == << c_www, c_lan, <<>> >>
N_ns == << c_ns, c_lan, <<>> >>
N_root == << <<>> >>

\* ---- what can be written: [owner name, wild, type, rdata text variants, rdata denotation] ----
\* rdata variants: sequences of tokens' TEXT (already escaped / quoted), with their denotation
Rdatas ==
    { [type |-> "A", ttext |-> c_A, toks |-> <<c_ip1>>, names |-> <<>>, nums |-> <<>>, raw |-> <<>>, addr |-> "10.0.0.1"],
      [type |-> "A", ttext |-> c_A, toks |-> <<c_ip2>>, names |-> <<>>, nums |-> <<>>, raw |-> <<>>, addr |-> "10.0.0.2"],
      [type |-> "CNAME", ttext |-> c_CNAME, toks |-> <<c_ns>>, names |-> <<N_ns>>, nums |-> <<>>, raw |-> <<>>, addr |-> ""],
      [type |-> "CNAME", ttext |-> c_CNAME, toks |-> <<c_wwwlanD>>, names |-> <<N_www>>, nums |-> <<>>, raw |-> <<>>, addr |-> ""],
      [type |-> "CNAME", ttext |-> c_CNAME, toks |-> << <<64>> >>, names |-> <<N_lan>>, nums |-> <<>>, raw |-> <<>>, addr |-> ""],
      [type |-> "MX", ttext |-> c_MX, toks |-> << <<49, 48>>, c_ns >>, names |-> <<N_ns>>, nums |-> <<10>>, raw |-> <<>>, addr |-> ""],
      \* TXT "a b;(c" quoted: blanks, semicolon and parenthesis are literal inside quotes
      [type |-> "TXT", ttext |-> c_TXT, toks |-> << <<34, 97, 32, 98, 59, 40, 99, 34>> >>, names |-> <<>>, nums |-> <<>>,
       raw |-> <<97, 32, 98, 59, 40, 99>>, addr |-> ""],
      \* TXT a\ b\;\"\200 unquoted with \X and \DDD escapes
      [type |-> "TXT", ttext |-> c_TXT, toks |-> << <<97, 92, 32, 98, 92, 59, 92, 34, 92, 50, 48, 48>> >>, names |-> <<>>,
       nums |-> <<>>, raw |-> <<97, 32, 98, 59, 34, 200>>, addr |-> ""] }

SoaRd == [type |-> "SOA", ttext |-> c_SOA, toks |-> << c_ns, <<114>>, <<49>>, <<50>>, <<51>>, <<52>>, c_60 >>,
          names |-> << N_ns, << <<114>>, c_lan, <<>> >> >>, nums |-> <<1, 2, 3, 4, 60>>, raw |-> <<>>, addr |-> ""]

\* owner spellings given the context (origin = lan.): [text, name, wild, needsPrev]
Owners ==
    { [t |-> c_wwwlanD, name |-> N_www, wild |-> FALSE],
      [t |-> c_www, name |-> N_www, wild |-> FALSE],
      [t |-> <<64>>, name |-> N_lan, wild |-> FALSE],
      [t |-> <<42>>, name |-> N_lan, wild |-> TRUE],
      [t |-> <<42, 46>> \o c_www, name |-> N_www, wild |-> TRUE],
      [t |-> c_lanD, name |-> N_lan, wild |-> FALSE] }

RECURSIVE JoinToks(_, _)
JoinToks(ts, sep) == IF ts = <<>> THEN <<>> ELSE IF Len(ts) = 1 THEN ts[1] ELSE ts[1] \o sep \o JoinToks(Tail(ts), sep)

\* layouts of the token list ts: plain, parenthesised and broken over lines, parentheses
\* adjacent to tokens, and a trailing comment
Render(ts, layout) ==
    CASE layout = "plain" -> JoinToks(ts, SP) \o NL
      [] layout = "comment" -> JoinToks(ts, <<32, 32>>) \o <<32, 59, 32, 120, 32, 40, 34>> \o NL
      [] layout = "paren" ->
            \* first token, then "( " rest broken over lines " )"
            ts[1] \o SP \o <<40, 32>> \o JoinToks(Tail(ts), <<10, 32, 32>>) \o <<32, 41>> \o NL
      [] layout = "tight" ->
            \* "(" and ")" written directly against the neighbouring tokens
            ts[1] \o SP \o <<40>> \o JoinToks(Tail(ts), <<10, 9>>) \o <<41>> \o NL

\* ---- state ----
Init == /\ text = <<36, 79, 82, 73, 71, 73, 78, 32>> \o c_lanD \o NL         \* $ORIGIN lan.
        /\ den = [apex |-> N_root, auth |-> FALSE, min |-> 0, soa |-> NoRdata, rrs |-> {}]
        /\ ctx = [prev |-> [has |-> FALSE, wild |-> FALSE, name |-> <<>>], pttl |-> [has |-> FALSE, val |-> 0]]
        /\ n = 0
        /\ faulty = FALSE

RdOf(rd) == [ok |-> TRUE, big |-> FALSE, type |-> rd.type, names |-> rd.names, nums |-> rd.nums, raw |-> rd.raw, addr |-> rd.addr]

\* one well-formed record entry
AddRR(own, useOwner, ttlMode, rd, layout) ==
    LET owner == IF useOwner THEN [wild |-> own.wild, name |-> own.name] ELSE [wild |-> ctx.prev.wild, name |-> ctx.prev.name]
        ttl == IF rd.type = "SOA" THEN 60
               ELSE IF ttlMode \in {"ttl-in", "in-ttl", "ttl"} THEN 300 ELSE ctx.pttl.val
        mid == CASE ttlMode = "ttl-in" -> <<c_300, c_IN>>
                 [] ttlMode = "in-ttl" -> <<c_IN, c_300>>
                 [] ttlMode = "ttl" -> <<c_300>>
                 [] ttlMode = "in" -> <<c_IN>>
                 [] ttlMode = "none" -> <<>>
        ts == (IF useOwner THEN <<own.t>> ELSE <<>>) \o mid \o <<rd.ttext>> \o rd.toks
        r == [name |-> owner.name, wild |-> owner.wild, ttl |-> ttl, rd |-> RdOf(rd)]
    IN /\ useOwner \/ ctx.prev.has                                   \* an omitted owner needs a previous one
       /\ ttlMode \in {"in", "none"} => (ctx.pttl.has \/ rd.type = "SOA")   \* an omitted TTL needs a previous one
       /\ Len(ts) >= 2
       /\ layout \in {"paren", "tight"} => Len(ts) >= 3
       /\ text' = text \o Render(ts, layout)
       /\ ctx' = [prev |-> [has |-> TRUE, wild |-> owner.wild, name |-> owner.name], pttl |-> [has |-> TRUE, val |-> ttl]]
       /\ IF rd.type = "SOA"
          THEN /\ ~den.auth /\ ~owner.wild
               /\ den' = [den EXCEPT !.apex = owner.name, !.auth = TRUE, !.min = 60, !.soa = RdOf(rd)]
          ELSE den' = [den EXCEPT !.rrs = @ \cup {r}]

Next ==
    /\ n < MaxEntries /\ ~faulty
    /\ n' = n + 1
    /\ \/ /\ \E own \in Owners, useOwner \in BOOLEAN, ttlMode \in {"ttl-in", "in-ttl", "ttl", "in", "none"},
                rd \in Rdatas \cup {SoaRd}, layout \in Layouts :
                \* the first entry takes every variant; later entries those that depend on what came before
                /\ n >= 1 => ((~useOwner \/ ttlMode \in {"in", "none"}) /\ layout = "plain")
                /\ AddRR(own, useOwner, ttlMode, rd, layout)
          /\ UNCHANGED faulty
       \/ \* single-fault entries: the file must now be rejected as a whole
          /\ \E f \in { <<36, 73, 78, 67, 76, 85, 68, 69, 32, 120, 10>>,                         \* $INCLUDE x
                        c_www \o SP \o c_300 \o <<32, 67, 72, 32>> \o c_A \o SP \o c_ip1 \o NL,      \* class CH
                        <<42, 32>> \o c_IN \o SP \o c_SOA \o <<32, 110, 115, 32, 114, 32, 49, 32, 50, 32, 51, 32, 52, 32, 53, 10>>, \* wildcard SOA
                        <<120, 46, 32>> \o c_300 \o SP \o c_A \o SP \o c_ip1 \o NL \o c_lanD \o SP \o c_IN \o SP \o c_SOA
                             \o <<32, 110, 115, 32, 114, 32, 49, 32, 50, 32, 51, 32, 52, 32, 53, 10>>,   \* name outside the apex
                        c_www \o SP \o c_A \o <<32, 49, 46, 50, 10>>,                               \* malformed address
                        c_www \o <<32, 51, 48, 48, 120, 32>> \o c_A \o SP \o c_ip1 \o NL,            \* TTL 300x
                        c_www \o SP \o c_300 \o SP \o c_TXT \o <<32, 92, 50, 53, 54, 10>> } :        \* escape \256
                text' = text \o f
          /\ faulty' = TRUE
          /\ UNCHANGED <<den, ctx>>

Spec == Init /\ [][Next]_vars

\* the denotation as a ParseZone-shaped value
Expected ==
    IF \E r \in den.rrs : ~IsSubdomain(r.name, den.apex) THEN ZFail
    ELSE [ok |-> TRUE, big |-> FALSE, apex |-> den.apex, auth |-> den.auth, soa |-> den.soa,
          recs |-> { ZRec(r, MaxU(r.ttl, den.min)) : r \in den.rrs }]

Inv_C11_Parse == ~faulty => ParseZone(text, Lits) = Expected
Inv_C11_Reject == faulty => ~ParseZone(text, Lits).ok

Inv_Gen == PrintT(<<"GENZONETEXT", ToJson([text |-> text, faulty |-> faulty, expected |-> Expected])>>)
=============================================================================
