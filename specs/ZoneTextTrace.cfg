SPECIFICATION Spec
CONSTANTS
  BuggyF14 = FALSE
  BuggyF9 = FALSE
POSTCONDITION AllConsumed
CHECK_DEADLOCK FALSE
