---------------------------- MODULE RecursiveTrace ----------------------------
(***************************************************************************)
(* Trace validation of real recursive resolutions against the state        *)
(* machine of module Recursive.                                            *)
(*                                                                         *)
(* The trace is the one ResolveTrace reads: per scenario the local zones,  *)
(* the initial cache, the protocol mode and the runs (questions sharing    *)
(* the cache); per run every transport attempt seen at the intercepted     *)
(* transport (hook H3: address, UDP/TCP, question, the reply that was      *)
(* handed back or the fault) and the result returned to the caller.        *)
(*                                                                         *)
(* Each recorded attempt must be an Exchange step of the model, with the   *)
(* logged address, transport, question and reply; everything between two   *)
(* attempts (local resolution, candidate choice, nested resolutions,       *)
(* returns) is not logged and is inferred by TLC: Internal steps.  What    *)
(* the model leaves open - the order of candidates, which address comes    *)
(* first, whether a UDP reply had to be cut short - TLC searches.  A       *)
(* scenario is ACCEPTed when all its runs were consumed and each run's     *)
(* result is the one the model returns.  Every invariant of Recursive is   *)
(* evaluated in every state of the matched behaviours.                     *)
(*                                                                         *)
(* One initial state per scenario; the driver reads the ACCEPT lines.      *)
(***************************************************************************)
EXTENDS Recursive, Json, IOUtils, TLC

Rec == ndJsonDeserialize(IOEnv.TRACE)

VARIABLES sc,      \* scenario (line of the trace)
          k,       \* runs started
          l,       \* transport attempts of run k consumed
          lost     \* record sets the cache lost so far (bounded)
vars == <<env, now, cache, stack, ret, cur, sc, k, l, lost>>

ZoneOf(zj) ==
    LET min == IF zj.auth THEN zj.soa.ttl ELSE 0
        base == [apex |-> zj.apex, auth |-> zj.auth, min |-> min, soa |-> zj.soa,
                 recs |-> IF zj.auth THEN {zj.soa} ELSE {}]
    IN [base EXCEPT !.recs = @ \cup { [r EXCEPT !.ttl = MaxOf(r.ttl, min)]
                                        : r \in { x \in SeqRange(zj.recs) : x.type # "SOA" } }]

Eligible(c) == c.ev = "resolve" /\ c.mode \in {"recursive", "forwarding"}

KeyOf(rr) == <<rr.name, rr.type, rr.data>>

\* virtual time passed in the scenario (time-outs): only then may the cache have lost anything
TimePassed(c) == \E i \in DOMAIN c.runs : c.runs[i].t1 > c.runs[1].t0

Init ==
    /\ sc \in { i \in DOMAIN Rec : Eligible(Rec[i]) }
    /\ env = [local |-> { ZoneOf(Rec[sc].zones[i]) : i \in DOMAIN Rec[sc].zones }, protocol |-> Rec[sc].protocol,
              mode |-> Rec[sc].mode, forwarder |-> Rec[sc].forwarder_ip]
    /\ now = Rec[sc].runs[1].t0
    /\ cache = { Stamp(r, Rec[sc].runs[1].t0) : r \in SeqRange(Rec[sc].cache) }
    /\ stack = <<>> /\ ret = NoRet /\ cur = NoQ
    /\ k = 0 /\ l = 0 /\ lost = 0

Run == Rec[sc].runs[k]

\* the result the caller got is the one the model returns
ResultMatches ==
    LET r == Run.result IN
    IF ~ret.ok THEN r.kind = "Err"
    ELSE /\ r.kind = ret.res.kind
         /\ Len(r.rrs) = Len(ret.res.rrs)
         /\ { KeyOf(x) : x \in SeqRange(r.rrs) } = { KeyOf(x) : x \in SeqRange(ret.res.rrs) }
         /\ r.has_soa = (ret.res.soa # NoRR)
         /\ r.has_soa => KeyOf(r.soa) = KeyOf(ret.res.soa)

RunDone == k = 0 \/ (Finished /\ l = Len(Run.exchanges) /\ ResultMatches)

StartRun ==
    /\ RunDone /\ k < Len(Rec[sc].runs)
    /\ Ask([name |-> Rec[sc].runs[k + 1].q.name, type |-> Rec[sc].runs[k + 1].q.type])
    /\ now' = Rec[sc].runs[k + 1].t0
    /\ k' = k + 1 /\ l' = 0 /\ UNCHANGED <<sc, lost>>

InternalStep == k > 0 /\ Internal /\ UNCHANGED <<now, sc, k, l, lost>>

ExchangeStep ==
    /\ k > 0 /\ l < Len(Run.exchanges)
    /\ stack # <<>> /\ Top.kind \in {"R", "F"} /\ Top.pc \in {"udp", "tcp"}
    /\ LET e == Run.exchanges[l + 1]
           clean == e.faultkind = "" /\ e.reply.kind = "msg"
           reply == [rcode |-> e.reply.rcode, answers |-> e.reply.answers, authority |-> e.reply.authority,
                     additional |-> e.reply.additional]
           \* was the attempt usable (in time, matching the request, not truncated)?  Not logged as such: nothing
           \* arrived -> no; a clean reply over TCP -> yes; otherwise (a clean UDP reply may have been too long for a
           \* datagram, an injected fault may or may not spoil the message) TLC tries both and the rest of the trace decides
           usableSet == IF e.reply.kind # "msg" THEN {FALSE} ELSE IF clean /\ e.tcp THEN {TRUE} ELSE {TRUE, FALSE}
       IN /\ Top.ip = e.addr /\ Top.q.name = e.qname /\ Top.q.type = e.qtype /\ (Top.pc = "tcp") = e.tcp
          \* the attempt is over when the next one starts (or the resolution returns)
          /\ LET tdone == IF l + 1 < Len(Run.exchanges) THEN Run.exchanges[l + 2].t ELSE Run.t1 IN
             /\ \E usable \in usableSet : Exchange(e.tcp, usable, reply, tdone)
             /\ now' = tdone
    /\ l' = l + 1 /\ UNCHANGED <<sc, k, lost>>

\* the 60 s budget of resolve_recursive ran out: the resolution is abandoned wherever it is
TimeoutStep ==
    /\ k > 0 /\ l = Len(Run.exchanges) /\ stack # <<>> /\ Run.result.err = "Timeout"
    /\ stack' = <<>> /\ ret' = RetErr("Timeout")
    /\ UNCHANGED <<now, cache, cur, sc, k, l, lost>>

\* expiry follows the recorded times (Live); other loss (eviction) does not occur in the recorded runs: the
\* cache is far larger than what a scenario inserts
ForgetStep == FALSE /\ UNCHANGED vars

Accepted == RunDone /\ k = Len(Rec[sc].runs)

Next == (StartRun \/ InternalStep \/ ExchangeStep \/ TimeoutStep \/ ForgetStep) /\ UNCHANGED env
Spec == Init /\ [][Next]_vars

\* printed once per accepting state; the driver collects the scenario numbers
Inv_Accept == Accepted => PrintT(<<"ACCEPT", sc>>)
\* how far each scenario got (for the diagnosis of a scenario that is not accepted)
Inv_Reach == (k > 0 /\ Finished /\ l = Len(Run.exchanges)) => PrintT(<<"REACH", sc, k, ResultMatches>>)

\* the properties of the model, now evaluated on behaviours of the real resolver
Inv_C08_Stack == StackBounded
Inv_C18_Family == FamilyOK
Act_C07_Closer == [][CloserStep]_vars
=============================================================================
