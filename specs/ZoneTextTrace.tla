---------------------------- MODULE ZoneTextTrace ----------------------------
(* Trace validation for C11 / C13 / C17: each line is one zone text (or one    *)
(* zone built through the insertion API) with what the real code made of it:   *)
(* the parsed zone, the text written back, its re-parse, the text written      *)
(* again.  TLC reads every text with the specification's parser (ParseZone).   *)
EXTENDS ZoneText, Json, IOUtils, Functions

Rec == ndJsonDeserialize(IOEnv.TRACE)
VARIABLE l
vars == <<l>>

LitsOf(list) ==
    [t \in { list[i].tok : i \in DOMAIN list } |->
        LET e == CHOOSE x \in Range(list) : x.tok = t IN [v |-> e.v, canon |-> e.canon]]

Nums(ns) == [i \in DOMAIN ns |-> ToString(ns[i])]
SpecRec(r) == [name |-> r.name, wild |-> r.wild, type |-> r.type, ttl |-> ToString(r.ttl),
               names |-> r.names, nums |-> Nums(r.nums), raw |-> r.raw, addr |-> r.addr]

\* the dump of a real zone is the zone the specification reads
Agrees(P, out) ==
    /\ out.ok = P.ok
    /\ P.ok => /\ out.apex = P.apex
               /\ out.auth = P.auth
               /\ Range(out.recs) = { SpecRec(r) : r \in P.recs }
               /\ Len(out.recs) = Cardinality(P.recs)
               /\ out.soa_records = (IF P.auth THEN 1 ELSE 0)
               /\ P.auth => (out.soa.names = P.soa.names /\ out.soa.nums = Nums(P.soa.nums))

\* C13: the written text means the same zone, to the specification and to the real parser, and
\* writing it again still does
RoundTripOK(c, lits) ==
    c.rt.present =>
        LET R == ParseZone(c.rt.ser, lits)
            R2 == ParseZone(c.rt.ser2, lits)
        IN (R.big \/ R2.big) \/
           /\ Agrees(R, c.out)
           /\ c.rt.reparse = c.out
           /\ c.rt.equal
           /\ Agrees(R2, c.out)
           /\ c.rt.reparse2 = c.out

Say(ok, i, why) == IF ok THEN TRUE ELSE PrintT(<<"REJECT", i, why>>)

Check(i) ==
    LET c == Rec[i]
        lits == LitsOf(c.lits)
    IN IF c.mode = "api" THEN Say(RoundTripOK(c, lits), i, "roundtrip")
       ELSE LET P == ParseZone(c.text, lits) IN
            IF P.big THEN PrintT(<<"BIG", i>>)
            ELSE /\ Say(Agrees(P, c.out), i, "parse")
                 /\ Say(RoundTripOK(c, lits), i, "roundtrip")

Init == l = 0
Next == l < Len(Rec) /\ Check(l + 1) /\ l' = l + 1
Spec == Init /\ [][Next]_vars
AllConsumed == TLCGet("stats").diameter - 1 = Len(Rec)
=============================================================================
