------------------------------ MODULE ResolveTrace ------------------------------
(***************************************************************************)
(* Trace validation of real resolutions (dns_resolver::resolve in          *)
(* authoritative-only, recursive and forwarding mode) against the          *)
(* declarative properties C01, C06 (end to end), C07, C08, C10, C18.       *)
(*                                                                         *)
(* Each line is one scenario: the local zones, the initial cache, the      *)
(* mode, the scripted upstream (reply table, possibly a universe), and the *)
(* runs: per question the result, the virtual times, every upstream        *)
(* exchange (hook H3: address, transport, question, fault, reply) and      *)
(* every cache operation (hook H2).  Runs of one scenario share the cache. *)
(* Every check prints REJECT with the property it belongs to.              *)
(***************************************************************************)
EXTENDS Validate, Universe, Json, IOUtils, Functions

Rec == ndJsonDeserialize(IOEnv.TRACE)
VARIABLE l
vars == <<l>>

ZoneOf(zj) ==
    LET min == IF zj.auth THEN zj.soa.ttl ELSE 0
        base == [apex |-> zj.apex, auth |-> zj.auth, min |-> min, soa |-> zj.soa,
                 recs |-> IF zj.auth THEN {zj.soa} ELSE {}]
    IN [base EXCEPT !.recs = @ \cup { [r EXCEPT !.ttl = MaxOf(r.ttl, min)]
                                        : r \in { x \in Range(zj.recs) : x.type # "SOA" } }]

ZonesOf(c) == { ZoneOf(c.zones[i]) : i \in DOMAIN c.zones }
ResOf(r) == [kind |-> r.result.kind, rrs |-> r.result.rrs, soa |-> r.result.soa, err |-> r.result.err]
Q(r) == [name |-> r.q.name, type |-> r.q.type]

Key(rr) == <<rr.name, rr.type, rr.data>>

\* records inserted into the cache by the runs before run k
InsertedBefore(c, k) ==
    UNION { { [name |-> e.name, type |-> e.type, data |-> e.data] : e \in { x \in Range(c.runs[j].cache_events) : x.ev = "insert" } }
            : j \in 1..(k - 1) }

-----------------------------------------------------------------------------
(* C01 / C10: what a caller sees                                            *)

C01OK(c, r) ==
    LET zs == ZonesOf(c)  res == ResOf(r)  n == Len(r.exchanges) IN
    /\ AuthOwns(zs, Q(r), res, n)
    /\ Override(zs, Q(r), res, n)
    /\ Provenance(zs, res)
    /\ NameErrorOnlyAuth(zs, Q(r), res)
    /\ ChainEndOwned(zs, Q(r), res)
    /\ \A i \in DOMAIN r.exchanges : AskedUpstreamOK(zs, r.exchanges[i].qname, r.exchanges[i].qtype)

\* (a referral out of an authoritative local zone is returned in the answer section in authoritative-only
\* mode - deviation D3, finding F6 - and is not an alias chain)
LocalReferral(c, r) ==
    c.mode = "auth" /\ ResolveLocal(ZonesOf(c), Range(c.cache), Q(r), <<>>).kind = "delegation"

C10OK(c, r) ==
    (r.result.kind \in {"Authoritative", "NonAuthoritative"} /\ ~LocalReferral(c, r)) => ChainOk(Q(r), r.result.rrs)

-----------------------------------------------------------------------------
(* C08: bounded time, no panic, nothing invented                           *)

ReplyRecs(e) == IF e.reply.kind = "msg"
                THEN Range(e.reply.answers) \cup Range(e.reply.authority) \cup Range(e.reply.additional) ELSE {}

Supplied(c, k) ==
    { Key(rr) : rr \in UNION { { RR(x, x.name) : x \in z.recs } : z \in ZonesOf(c) } }
    \cup { Key(rr) : rr \in Range(c.cache) }
    \cup UNION { UNION { { Key(rr) : rr \in ReplyRecs(c.runs[j].exchanges[i]) } : i \in DOMAIN c.runs[j].exchanges }
                 : j \in 1..k }

\* a record synthesised from a local wildcard carries the question's owner name: compare type and data only
LocalData(c) == { <<x.type, x.data>> : x \in UNION { z.recs : z \in ZonesOf(c) } }

C08OK(c, k) ==
    LET r == c.runs[k] IN
    /\ r.result.kind # "Panic"
    /\ r.t1 - r.t0 <= 60000
    /\ \A i \in DOMAIN r.exchanges :
          LET next == IF i < Len(r.exchanges) THEN r.exchanges[i + 1].t ELSE r.t1 IN
          next - r.exchanges[i].t <= 5000
    /\ \A i \in DOMAIN r.result.rrs :
          \/ Key(r.result.rrs[i]) \in Supplied(c, k)
          \/ <<r.result.rrs[i].type, r.result.rrs[i].data>> \in LocalData(c)
    /\ r.result.has_soa =>
          \/ Key(r.result.soa) \in Supplied(c, k)
          \/ \E z \in ZonesOf(c) : z.auth /\ r.result.soa = SoaRR(z)

-----------------------------------------------------------------------------
(* C18: address family, port, forwarder                                     *)

Preferred(c) == IF c.protocol \in {"only-v4", "prefer-v4"} THEN 4 ELSE 6
AddrType(v) == IF v = 4 THEN "A" ELSE "AAAA"

\* the resolver holds an address of family v for host h before exchange e of run k:
\* in a local zone, in the initial cache, or inserted into the cache earlier (H2 events are numbered)
Holds(c, k, e, h, v) ==
    \/ \E z \in ZonesOf(c) : \E x \in z.recs : ~x.wild /\ x.name = h /\ x.type = AddrType(v)
    \/ \E x \in Range(c.cache) : x.name = h /\ x.type = AddrType(v)
    \/ \E x \in InsertedBefore(c, k) : x.name = h /\ x.type = AddrType(v)
    \/ \E i \in DOMAIN c.runs[k].cache_events :
          LET x == c.runs[k].cache_events[i] IN
          x.ev = "insert" /\ i <= e.cache_seq /\ x.name = h /\ x.type = AddrType(v)

C18OK(c, k) ==
    LET r == c.runs[k] IN
    \A i \in DOMAIN r.exchanges :
        LET e == r.exchanges[i] IN
        IF c.mode = "forwarding"
        THEN e.addr = c.forwarder_ip /\ e.port = c.forwarder_port
        ELSE /\ e.port = c.port
             /\ c.protocol = "only-v4" => e.v = 4
             /\ c.protocol = "only-v6" => e.v = 6
             \* never the other family while an address of the preferred family is held for that name server
             /\ e.v # Preferred(c) =>
                   \A ha \in Range(c.hostaddrs) : ha.addr = e.addr => ~Holds(c, k, e, ha.host, Preferred(c))
             \* a name server's address is looked up for the preferred family first
             /\ (c.protocol \in {"prefer-v4", "prefer-v6"} /\ e.qtype = AddrType(10 - Preferred(c))
                 /\ \E ha \in Range(c.hostaddrs) : ha.host = e.qname)
                  => \/ \E j \in 1..(i - 1) : r.exchanges[j].qname = e.qname /\ r.exchanges[j].qtype = AddrType(Preferred(c))
                     \/ Q(r) = [name |-> e.qname, type |-> e.qtype]              \* it is the client's own question

-----------------------------------------------------------------------------
(* C07: the authoritative answer, referrals strictly closer                 *)

UniverseOf(c) == [zones |-> { ZoneOf(c.universe.zones[i]) : i \in DOMAIN c.universe.zones },
                  servers |-> { [addr |-> s.addr, v |-> s.v, apexes |-> Range(s.apexes)] : s \in Range(c.universe.servers) }]

KeyTtl(rr) == <<rr.name, rr.type, rr.data, rr.ttl>>

C07OK(c, k) ==
    LET r == c.runs[k]
        U == UniverseOf(c)
        t == Truth(U, Q(r))
        mine == SelectSeq(r.exchanges, LAMBDA e : e.qname = r.q.name /\ e.qtype = r.q.type)
    IN /\ (c.expect_truth /\ t.ok) =>
             /\ r.result.kind = "NonAuthoritative"
             /\ { Key(x) : x \in Range(r.result.rrs) } = { Key(x) : x \in Range(t.rrs) }
             /\ Len(r.result.rrs) = Len(t.rrs)
             /\ ChainOk(Q(r), r.result.rrs)
             \* (C07 is stated for recursive resolution; forwarding passes the SOA of a negative answer on only when
             \* the answer section is empty - observation O2 - so behind an alias it is not demanded there)
             /\ (t.negative /\ (c.mode = "recursive" \/ t.rrs = <<>>)) => (r.result.has_soa /\ Key(r.result.soa) = Key(t.soa))
       \* each server asked the client's question serves a zone strictly closer to the name than the previous one
       \* (the same address twice in a row is the UDP -> TCP fallback)
       /\ \A i \in 2..Len(mine) :
             \/ mine[i].addr = mine[i - 1].addr
             \/ ServingDepth(U, mine[i].addr, r.q.name) > ServingDepth(U, mine[i - 1].addr, r.q.name)

-----------------------------------------------------------------------------
(* C06 end to end: what reaches the cache or the answer                     *)

Clean(e) == e.reply.kind = "msg" /\ e.faultkind = ""

\* The depth of the delegation in use at an exchange is not logged.  It is derived: the resolver asks a server because
\* an NS set it holds (local zones, initial cache, inserted before this exchange - hook H2 numbers the cache
\* operations) names that server's host for a zone enclosing the question name; it uses the closest such set.  With no
\* address-to-host map (or no such set) the most permissive depth 0 is assumed.
HeldNS(c, k, e) ==
    { [name |-> x.name, target |-> x.target] : x \in { y \in UNION { z.recs : z \in ZonesOf(c) } : y.type = "NS" /\ ~y.wild } }
    \cup { [name |-> x.name, target |-> x.target] : x \in { y \in Range(c.cache) : y.type = "NS" } }
    \cup UNION { { [name |-> x.name, target |-> x.target]
                   : x \in { y \in Range(c.runs[j].cache_events) : y.ev = "insert" /\ y.type = "NS" } } : j \in 1..(k - 1) }
    \cup { [name |-> c.runs[k].cache_events[i].name, target |-> c.runs[k].cache_events[i].target]
           : i \in { j \in DOMAIN c.runs[k].cache_events :
                       j <= e.cache_seq /\ c.runs[k].cache_events[j].ev = "insert" /\ c.runs[k].cache_events[j].type = "NS" } }

DepthInUse(c, k, e) ==
    LET hosts == { ha.host : ha \in { x \in Range(c.hostaddrs) : x.addr = e.addr } }
        ds == { Labels(ns.name) : ns \in { x \in HeldNS(c, k, e) : IsSubdomain(e.qname, x.name) /\ x.target \in hosts } }
    IN IF ds = {} THEN 0 ELSE CHOOSE d \in ds : \A d2 \in ds : d2 <= d

\* records one clean exchange allows in
AllowedBy(c, k, e) ==
    IF Clean(e) THEN { Key(x) : x \in Relevant([name |-> e.qname, type |-> e.qtype], DepthInUse(c, k, e),
                                               [rcode |-> e.reply.rcode, answers |-> e.reply.answers,
                                                authority |-> e.reply.authority, additional |-> e.reply.additional]) }
    ELSE {}

AllowedIn(c, k) == UNION { AllowedBy(c, k, c.runs[k].exchanges[i]) : i \in DOMAIN c.runs[k].exchanges }

\* what is put into the cache between exchange i and the next one comes from the reply of exchange i (hook H2 numbers
\* the cache operations, hook H3 notes how many had happened when an exchange started)
InsertsAfter(c, k, i) ==
    LET r == c.runs[k]
        lo == r.exchanges[i].cache_seq
        hi == IF i < Len(r.exchanges) THEN r.exchanges[i + 1].cache_seq ELSE Len(r.cache_events)
    IN { r.cache_events[j] : j \in { x \in DOMAIN r.cache_events : x > lo /\ x <= hi /\ r.cache_events[x].ev = "insert" } }

InsertedBeforeKeys(c, k) == { <<x.name, x.type, x.data>> : x \in InsertedBefore(c, k) }

C06OK(c, k) ==
    LET r == c.runs[k] IN
    c.mode = "recursive" =>
        /\ \A i \in DOMAIN r.exchanges :
              \A x \in InsertsAfter(c, k, i) : <<x.name, x.type, x.data>> \in AllowedBy(c, k, r.exchanges[i])
        /\ \A x \in { r.cache_events[j] : j \in { y \in DOMAIN r.cache_events :
                                                    r.cache_events[y].ev = "insert"
                                                    /\ (r.exchanges = <<>> \/ y <= r.exchanges[1].cache_seq) } } : FALSE
        /\ \A i \in DOMAIN r.result.rrs :
              \/ Key(r.result.rrs[i]) \in AllowedIn(c, k)
              \/ Key(r.result.rrs[i]) \in { Key(x) : x \in Range(c.cache) } \cup InsertedBeforeKeys(c, k)
              \/ <<r.result.rrs[i].type, r.result.rrs[i].data>> \in LocalData(c)

-----------------------------------------------------------------------------
(* agreement with the code-shaped local model (authoritative-only mode; reported as drift) *)
DriftFree(c, k) ==
    (c.mode = "auth" /\ k = 1) =>
        LET m == ToResolved(ResolveLocal(ZonesOf(c), Range(c.cache), Q(c.runs[k]), <<>>))
            r == ResOf(c.runs[k])
        IN m.kind = r.kind /\ Range(m.rrs) = Range(r.rrs) /\ m.soa = r.soa /\ m.err = r.err

\* Known finding F13: an upstream (or forwarder) reply whose alias chain ends at a name owned by a local zone
\* supplies that name's records.  Recognised by its shape so that any other C01 violation is still reported:
\* only Provenance fails, and every offending record was supplied, in this run, by a reply whose answer section
\* also holds a CNAME pointing at the record's owner.
F13Shape(c, r) ==
    LET zs == ZonesOf(c)  res == ResOf(r)  n == Len(r.exchanges) IN
    /\ AuthOwns(zs, Q(r), res, n) /\ Override(zs, Q(r), res, n) /\ NameErrorOnlyAuth(zs, Q(r), res)
    /\ \A i \in DOMAIN r.exchanges : AskedUpstreamOK(zs, r.exchanges[i].qname, r.exchanges[i].qtype)
    /\ ~Provenance(zs, res)          \* (ChainEndOwned then fails with it: the records at the chain's end are the upstream's)
    /\ n > 0 /\ c.mode # "auth"
    /\ \A i \in DOMAIN res.rrs :
          ~Provenance(zs, [res EXCEPT !.rrs = <<res.rrs[i]>>]) =>
              \E j \in DOMAIN r.exchanges :
                  LET e == r.exchanges[j] IN
                  /\ e.reply.kind = "msg"
                  /\ \E x \in Range(e.reply.answers) : Key(x) = Key(res.rrs[i])
                  /\ \E x \in Range(e.reply.answers) : x.type = "CNAME" /\ x.target = res.rrs[i].name

\* Known finding F16 (C10, forwarding mode): the forwarder's answer section is taken over unexamined and appended to
\* the local / cached chain that led to the forwarded question, so an answer section that runs in a circle or branches
\* comes back as it is: repeated records, an alias followed twice.  Recognised by its shape so that any other C10
\* violation is still reported: forwarding mode; the tail of the result is, record for record, the answer section of
\* one forwarder reply of this run; and what precedes it is a proper (partial) chain from the question name.
F16Shape(c, r) ==
    /\ c.mode = "forwarding" /\ Len(r.exchanges) > 0 /\ r.result.kind = "NonAuthoritative"
    /\ ~ChainOk(Q(r), r.result.rrs)
    /\ \E i \in DOMAIN r.exchanges :
          LET ans == r.exchanges[i].reply.answers
              n == Len(r.result.rrs)
              m == Len(ans)
          IN /\ r.exchanges[i].reply.kind = "msg" /\ m > 0 /\ m <= n
             /\ \A j \in 1..m : Key(r.result.rrs[n - m + j]) = Key(ans[j])
             /\ ChainOk(Q(r), SubSeq(r.result.rrs, 1, n - m))

Say(ok, i, k, why) == IF ok THEN TRUE ELSE PrintT(<<"REJECT", i, k, why>>)

Check(i) ==
    LET c == Rec[i] IN
    \A k \in DOMAIN c.runs :
        /\ Say(C01OK(c, c.runs[k]), i, k, IF F13Shape(c, c.runs[k]) THEN "C01:F13" ELSE "C01")
        /\ Say(C10OK(c, c.runs[k]), i, k, IF F16Shape(c, c.runs[k]) THEN "C10:F16" ELSE "C10")
        /\ Say(C08OK(c, k), i, k, "C08")
        /\ Say(C18OK(c, k), i, k, "C18")
        /\ (c.has_universe => Say(C07OK(c, k), i, k, "C07"))
        /\ Say(C06OK(c, k), i, k, "C06")
        /\ (IF DriftFree(c, k) THEN TRUE ELSE PrintT(<<"DRIFT", i, k>>))

Init == l = 0
Next == l < Len(Rec) /\ Check(l + 1) /\ l' = l + 1
Spec == Init /\ [][Next]_vars
AllConsumed == TLCGet("stats").diameter - 1 = Len(Rec)
=============================================================================
