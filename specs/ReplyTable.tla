------------------------------ MODULE ReplyTable ------------------------------
(* The specification's authoritative-server model answers the questions a      *)
(* resolver may ask in a universe: one line per universe, with the list of     *)
(* (address, name, type) to answer.  The driver feeds the printed replies to   *)
(* the harness's scripted upstream.                                            *)
EXTENDS Universe, Json, IOUtils, Functions

Rec == ndJsonDeserialize(IOEnv.TRACE)
VARIABLE l
vars == <<l>>

ZoneOf(zj) ==
    LET min == IF zj.auth THEN zj.soa.ttl ELSE 0
        base == [apex |-> zj.apex, auth |-> zj.auth, min |-> min, soa |-> zj.soa,
                 recs |-> IF zj.auth THEN {zj.soa} ELSE {}]
    IN [base EXCEPT !.recs = @ \cup { [r EXCEPT !.ttl = MaxOf(r.ttl, min)]
                                        : r \in { x \in Range(zj.recs) : x.type # "SOA" } }]

UniverseOf(c) == [zones |-> { ZoneOf(c.universe.zones[i]) : i \in DOMAIN c.universe.zones },
                  servers |-> { [addr |-> s.addr, v |-> s.v, apexes |-> Range(s.apexes)] : s \in Range(c.universe.servers) }]

TableFor(i) ==
    LET c == Rec[i]  U == UniverseOf(c) IN
    PrintT(<<"TABLE", i, ToJson([k \in DOMAIN c.ask |->
              [addr |-> c.ask[k].addr, qname |-> c.ask[k].name, qtype |-> c.ask[k].type,
               reply |-> IF c.ask[k].addr = c.forwarder_ip
                         THEN FwdReply(U, [name |-> c.ask[k].name, type |-> c.ask[k].type])
                         ELSE AuthReply(U, c.ask[k].addr, [name |-> c.ask[k].name, type |-> c.ask[k].type])]])>>)

Init == l = 0
Next == l < Len(Rec) /\ TableFor(l + 1) /\ l' = l + 1
Spec == Init /\ [][Next]_vars
AllConsumed == TLCGet("stats").diameter - 1 = Len(Rec)
=============================================================================
