------------------------------ MODULE ZoneLookup ------------------------------
(***************************************************************************)
(* Looking a name up in one zone (crates/dns-types/src/zones/types.rs).    *)
(*                                                                         *)
(*  - Rfc1034(z, n, t): the DECLARATIVE meaning, transcribed from property *)
(*    C02 / RFC 1034 section 4.3.2 step 3 (closest encloser, wildcard at   *)
(*    the closest encloser, cuts other than the apex, CNAME unless CNAME   *)
(*    or ANY was asked, empty answer for existing names).  It yields the   *)
(*    SET of acceptable results (more than one only when a node carries    *)
(*    several CNAME records: the property does not say which one).         *)
(*  - ZoneResolve(z, n, t): the CODE-SHAPED algorithm: the descent of      *)
(*    ZoneRecords::resolve through the label tree, one recursion per       *)
(*    label, with the three fall-backs of the code (child / wildcards /    *)
(*    NS at the node) and zone_result_helper as Helper.                    *)
(*                                                                         *)
(* A zone is [apex, auth, min, soa, recs]; recs is a set of                *)
(*   [name, wild, type, data, target, ttl]                                 *)
(* where for wild = TRUE `name` is the PARENT of the wildcard label (the   *)
(* node that holds the wildcard set), exactly as Zone::insert_wildcard.    *)
(* A result is [kind, rrs, cname] with rrs a set of                        *)
(*   [name, type, data, target, ttl].                                      *)
(***************************************************************************)
EXTENDS Names, TLC

CONSTANT BuggyF1     \* TRUE = the algorithm before fix F1 (apex NS treated as a cut)

MaxOf(a, b) == IF a >= b THEN a ELSE b

NoName == <<>>

QTypeMatches(rt, qt) == qt = "ANY" \/ rt = qt   \* AXFR / MAILA / MAILB match no record type

RR(r, owner) == [name |-> owner, type |-> r.type, data |-> r.data,
                 target |-> r.target, ttl |-> r.ttl]

Plain(z, x) == { r \in z.recs : ~r.wild /\ r.name = x }
Wild(z, x)  == { r \in z.recs : r.wild /\ r.name = x }
OfType(S, t) == { r \in S : r.type = t }
HasType(S, t) == OfType(S, t) # {}

\* Zone::insert / insert_wildcard: TTL raised to the SOA minimum, duplicates
\* (same owner, wildness, type, data and effective TTL) collapse.
ZoneInsert(z, r) == [z EXCEPT !.recs = @ \cup { [r EXCEPT !.ttl = MaxOf(r.ttl, z.min)] }]

\* A node of the label tree exists iff it is the apex or some record or
\* wildcard set is held at or beneath it (so empty non-terminals exist).
Exists(z, x) == x = z.apex \/ \E r \in z.recs : IsNameSuffix(x, r.name)

Delegation(S, owner) == [kind |-> "delegation",
                         rrs |-> { RR(r, owner) : r \in OfType(S, "NS") },
                         cname |-> NoName]
NameError == [kind |-> "nameerror", rrs |-> {}, cname |-> NoName]
Answer(S, n, t) == [kind |-> "answer",
                    rrs |-> { RR(r, n) : r \in { x \in S : QTypeMatches(x.type, t) } },
                    cname |-> NoName]
CnameRes(c, n) == [kind |-> "cname", rrs |-> { RR(c, n) }, cname |-> c.target]

-----------------------------------------------------------------------------
(* Declarative meaning                                                     *)

Cuts(z) == { r.name : r \in { x \in z.recs : ~x.wild /\ x.type = "NS" /\ x.name # z.apex } }

\* deviation D1: zones holding anything strictly beneath a cut (glue, occluded
\* data, a wildcard owned by the cut) are outside the claim
D1Free(z) == \A c \in Cuts(z) : \A r \in z.recs :
                ~StrictlyBeneath(r.name, c) /\ ~(r.wild /\ r.name = c)

Closest(z, n) ==
    LET C == { e \in Ancestors(n) : IsNameSuffix(z.apex, e) /\ Exists(z, e) }
    IN CHOOSE e \in C : \A f \in C : Len(f) <= Len(e)

Terminal(S, n, t, canRefer, nsOwner) ==
    IF canRefer /\ t # "NS" /\ HasType(S, "NS")
    THEN { Delegation(S, nsOwner) }
    ELSE IF t \notin {"CNAME", "ANY"} /\ HasType(S, "CNAME")
    THEN { CnameRes(c, n) : c \in OfType(S, "CNAME") }
    ELSE { Answer(S, n, t) }

Rfc1034(z, n, t) ==
    LET e == Closest(z, n) IN
    IF e = n
    THEN Terminal(Plain(z, n), n, t, n # z.apex, n)
    ELSE IF Wild(z, e) # {}
    THEN \* D2: a wildcard NS delegates the next label below the closest encloser
         Terminal(Wild(z, e), n, t, TRUE, Suffix(n, Len(e) + 1))
    ELSE IF e # z.apex /\ HasType(Plain(z, e), "NS")
    THEN { Delegation(Plain(z, e), e) }
    ELSE { NameError }

-----------------------------------------------------------------------------
(* Code-shaped algorithm                                                   *)

\* zone_result_helper
Helper(n, t, S, nsdname, isApex) ==
    IF (BuggyF1 \/ ~isApex) /\ t # "NS" /\ HasType(S, "NS")
    THEN Delegation(S, nsdname)
    ELSE IF t \notin {"CNAME", "ANY"} /\ HasType(S, "CNAME")
    THEN CnameRes(CHOOSE c \in OfType(S, "CNAME") : TRUE, n)
    ELSE Answer(S, n, t)

\* ZoneRecords::resolve: `node` is the full name of the current tree node,
\* `rel` the labels of n not matched yet (most specific first)
RECURSIVE Descend(_, _, _, _, _)
Descend(z, node, rel, n, t) ==
    IF rel = <<>>
    THEN Helper(n, t, Plain(z, node), node, node = z.apex)
    ELSE LET child == <<rel[Len(rel)]>> \o node IN
         IF Exists(z, child)
         THEN Descend(z, child, SubSeq(rel, 1, Len(rel) - 1), n, t)
         ELSE IF Wild(z, node) # {}
         THEN Helper(n, t, Wild(z, node), child, FALSE)
         ELSE IF HasType(Plain(z, node), "NS") /\ (BuggyF1 \/ node # z.apex)
         THEN Delegation(Plain(z, node), node)
         ELSE NameError

\* Zone::resolve (defined for names at or beneath the apex)
ZoneResolve(z, n, t) == Descend(z, z.apex, Relative(n, z.apex), n, t)

\* Zones::get: the zone with the longest apex that is a suffix of n
ZonesGet(zs, n) ==
    LET C == { z \in zs : IsNameSuffix(z.apex, n) } IN
    IF C = {} THEN {} ELSE { CHOOSE z \in C : \A y \in C : Len(y.apex) <= Len(z.apex) }

=============================================================================
