------------------------------- MODULE MCHosts -------------------------------
(* Exhaustive small-scope check of C14 (line level): the character machine of *)
(* parse_line against hosts(5) on every line of up to MaxLen characters over  *)
(* a class alphabet; every line is printed for replay (GEN).                  *)
EXTENDS HostsText, Json

CONSTANTS MaxLen, GenLen

VARIABLE line
vars == <<line>>

\* space, tab, '#', '%', '4' (the token "4" alone stands for an IPv4 literal), '6' (IPv6),
\* 'x', 'y', '.', 'X', and a non-ASCII character
Alphabet == {32, 9, 35, 37, 52, 54, 120, 121, 46, 88, 233}

Lits == [t \in { <<52>>, <<54>> } |->
            IF t = <<52>> THEN [v |-> 4, canon |-> "10.0.0.4"] ELSE [v |-> 6, canon |-> "2001:db8::6"]]

Init == line = <<>>
Next == Len(line) < MaxLen /\ \E c \in Alphabet : line' = Append(line, c)
Spec == Init /\ [][Next]_vars

Inv_C14_Line == ParseLine(line, Lits) = Hosts5(line, Lits)

Inv_Gen == Len(line) <= GenLen => PrintT(<<"GENLINE", ToJson(line)>>)
=============================================================================
