-------------------------------- MODULE Wire --------------------------------
(***************************************************************************)
(* RFC 1035 section 4 message format.                                      *)
(*                                                                         *)
(*  Denote(b)  - an independent decoder: the message a byte string b       *)
(*               (sequence of 0..255, 1-based; "offset" is 0-based)        *)
(*               denotes, or an error.  Well-formedness is exactly:        *)
(*               12-octet header; every section as long as the header      *)
(*               says; labels <= 63 octets; names <= 255 octets; a         *)
(*               compression pointer targets an offset strictly before     *)
(*               the start of the name it occurs in (so chains strictly    *)
(*               descend and terminate); RDLENGTH = octets consumed by     *)
(*               the typed RDATA.  Trailing octets are ignored (A2).       *)
(*               Name octets are ASCII-lower-cased (C16).                  *)
(*  Encode(m)  - code-shaped model of protocol/serialise.rs: owner and     *)
(*               question names are replaced by a pointer when the whole   *)
(*               name was written before; every non-root name written in   *)
(*               full is memoised at its offset.                           *)
(*                                                                         *)
(* 32-bit fields are pairs <<hi16, lo16>> (TLC integers are 32-bit).       *)
(* A name is a sequence of labels, a label a sequence of octets.           *)
(* An RR is [name, type, class, ttl, names, ints, raw]: the RDATA of each  *)
(* type is split into its domain names, its 16-bit integers and its        *)
(* opaque octets.                                                          *)
(***************************************************************************)
EXTENDS Naturals, Sequences, FiniteSets

CONSTANTS PtrLimit,      \* offsets below this are addressable by a pointer (real: 16384)
          BuggyF2        \* TRUE = memoise_name before fix F2 (any offset that fits 16 bits)

LabelMax == 63
NameMax == 255

Lower(c) == IF c >= 65 /\ c <= 90 THEN c + 32 ELSE c
LowerSeq(s) == [i \in DOMAIN s |-> Lower(s[i])]

At(b, o) == b[o + 1]
U16At(b, o) == b[o + 1] * 256 + b[o + 2]

Err(e) == [ok |-> FALSE, err |-> e]

\* summary of the compression pointers followed: how many, and the lowest target
NoPtrs == [n |-> 0, lo |-> 65536]
PtrSeen(p, target) == [n |-> p.n + 1, lo |-> IF target < p.lo THEN target ELSE p.lo]
PtrJoin(p, q) == [n |-> p.n + q.n, lo |-> IF q.lo < p.lo THEN q.lo ELSE p.lo]

-----------------------------------------------------------------------------
(* names                                                                   *)

\* [ok, labels, len, next, ptrs] ; `start` is the offset at which the name (or the
\* pointed-to continuation) being read began; ptrs = pointers followed, as
\* <<position, target>>; `resume` = offset at which the enclosing stream resumes
\* (just after the first pointer followed; 0 while no pointer was followed)
RECURSIVE ReadName(_, _, _, _, _, _, _)
ReadName(b, start, pos, labels, len, ptrs, resume) ==
    IF pos >= Len(b) THEN Err("DomainTooShort")
    ELSE LET size == At(b, pos) IN
         IF size = 0
         THEN IF len + 1 <= NameMax
              THEN [ok |-> TRUE, labels |-> labels, len |-> len + 1,
                    next |-> IF resume = 0 THEN pos + 1 ELSE resume, ptrs |-> ptrs]
              ELSE Err("DomainTooLong")
         ELSE IF size <= LabelMax
         THEN IF pos + 1 + size > Len(b) THEN Err("DomainTooShort")
              ELSE IF len + 1 + size > NameMax THEN Err("DomainTooLong")
              ELSE ReadName(b, start, pos + 1 + size,
                            Append(labels, LowerSeq(SubSeq(b, pos + 2, pos + 1 + size))),
                            len + 1 + size, ptrs, resume)
         ELSE IF size >= 192
         THEN IF pos + 1 >= Len(b) THEN Err("DomainTooShort")
              ELSE LET target == (size - 192) * 256 + At(b, pos + 1) IN
                   IF target >= start THEN Err("DomainPointerInvalid")
                   ELSE \* the target name continues this one: labels, length and the pointers
                        \* followed accumulate
                        ReadName(b, target, target, labels, len, PtrSeen(ptrs, target),
                                 IF resume = 0 THEN pos + 2 ELSE resume)
         ELSE Err("DomainLabelInvalid")

NameAt(b, pos) == ReadName(b, pos, pos, <<>>, 0, NoPtrs, 0)

-----------------------------------------------------------------------------
(* resource records                                                        *)

\* RDATA shapes: number of leading 16-bit integers, number of names, then 16-bit integers
\* after the names; "raw" types take RDLENGTH opaque octets; "fixed" types a fixed number.
NameTypes == {2, 3, 4, 5, 7, 8, 9, 12}     \* NS MD MF CNAME MB MG MR PTR
Shape(t) ==
    IF t \in NameTypes THEN [pre |-> 0, names |-> 1, post |-> 0, fixed |-> 0, raw |-> FALSE]
    ELSE IF t = 6  THEN [pre |-> 0, names |-> 2, post |-> 10, fixed |-> 0, raw |-> FALSE]  \* SOA
    ELSE IF t = 14 THEN [pre |-> 0, names |-> 2, post |-> 0, fixed |-> 0, raw |-> FALSE]   \* MINFO
    ELSE IF t = 15 THEN [pre |-> 1, names |-> 1, post |-> 0, fixed |-> 0, raw |-> FALSE]   \* MX
    ELSE IF t = 33 THEN [pre |-> 3, names |-> 1, post |-> 0, fixed |-> 0, raw |-> FALSE]   \* SRV
    ELSE IF t = 1  THEN [pre |-> 0, names |-> 0, post |-> 0, fixed |-> 4, raw |-> FALSE]   \* A
    ELSE IF t = 28 THEN [pre |-> 0, names |-> 0, post |-> 0, fixed |-> 16, raw |-> FALSE]  \* AAAA
    ELSE [pre |-> 0, names |-> 0, post |-> 0, fixed |-> 0, raw |-> TRUE]     \* NULL WKS HINFO TXT unknown

RECURSIVE ReadInts(_, _, _, _)
ReadInts(b, pos, n, acc) ==
    IF n = 0 THEN [ok |-> TRUE, ints |-> acc, next |-> pos]
    ELSE IF pos + 2 > Len(b) THEN Err("ResourceRecordTooShort")
    ELSE ReadInts(b, pos + 2, n - 1, Append(acc, U16At(b, pos)))

RECURSIVE ReadNames(_, _, _, _, _)
ReadNames(b, pos, n, acc, ptrs) ==
    IF n = 0 THEN [ok |-> TRUE, names |-> acc, next |-> pos, ptrs |-> ptrs]
    ELSE LET r == NameAt(b, pos) IN
         IF ~r.ok THEN r
         ELSE ReadNames(b, r.next, n - 1, Append(acc, r.labels), PtrJoin(ptrs, r.ptrs))

\* RDATA of type t starting at pos with the given RDLENGTH
ReadRdata(b, pos, t, rdlen) ==
    LET sh == Shape(t) IN
    IF sh.raw
    THEN IF pos + rdlen > Len(b) THEN Err("ResourceRecordTooShort")
         ELSE [ok |-> TRUE, names |-> <<>>, ints |-> <<>>, raw |-> SubSeq(b, pos + 1, pos + rdlen),
               next |-> pos + rdlen, ptrs |-> NoPtrs]
    ELSE IF sh.fixed > 0
    THEN IF pos + sh.fixed > Len(b) THEN Err("ResourceRecordTooShort")
         ELSE [ok |-> TRUE, names |-> <<>>, ints |-> <<>>, raw |-> SubSeq(b, pos + 1, pos + sh.fixed),
               next |-> pos + sh.fixed, ptrs |-> NoPtrs]
    ELSE LET pre == ReadInts(b, pos, sh.pre, <<>>) IN
         IF ~pre.ok THEN pre
         ELSE LET nm == ReadNames(b, pre.next, sh.names, <<>>, NoPtrs) IN
              IF ~nm.ok THEN nm
              ELSE LET post == ReadInts(b, nm.next, sh.post, <<>>) IN
                   IF ~post.ok THEN post
                   ELSE [ok |-> TRUE, names |-> nm.names, ints |-> pre.ints \o post.ints, raw |-> <<>>,
                         next |-> post.next, ptrs |-> nm.ptrs]

ReadRR(b, pos) ==
    LET n == NameAt(b, pos) IN
    IF ~n.ok THEN n
    ELSE IF n.next + 10 > Len(b) THEN Err("ResourceRecordTooShort")
    ELSE LET t == U16At(b, n.next)
             c == U16At(b, n.next + 2)
             ttl == <<U16At(b, n.next + 4), U16At(b, n.next + 6)>>
             rdlen == U16At(b, n.next + 8)
             rd == ReadRdata(b, n.next + 10, t, rdlen)
         IN IF ~rd.ok THEN rd
            ELSE IF rd.next # n.next + 10 + rdlen THEN Err("ResourceRecordInvalid")
            ELSE [ok |-> TRUE,
                  rr |-> [name |-> n.labels, type |-> t, class |-> c, ttl |-> ttl,
                          names |-> rd.names, ints |-> rd.ints, raw |-> rd.raw],
                  next |-> rd.next, ptrs |-> PtrJoin(n.ptrs, rd.ptrs)]

RECURSIVE ReadRRs(_, _, _, _, _)
ReadRRs(b, pos, n, acc, ptrs) ==
    IF n = 0 THEN [ok |-> TRUE, rrs |-> acc, next |-> pos, ptrs |-> ptrs]
    ELSE LET r == ReadRR(b, pos) IN
         IF ~r.ok THEN r
         ELSE ReadRRs(b, r.next, n - 1, Append(acc, r.rr), PtrJoin(ptrs, r.ptrs))

ReadQuestion(b, pos) ==
    LET n == NameAt(b, pos) IN
    IF ~n.ok THEN n
    ELSE IF n.next + 4 > Len(b) THEN Err("QuestionTooShort")
    ELSE [ok |-> TRUE, q |-> [name |-> n.labels, qtype |-> U16At(b, n.next), qclass |-> U16At(b, n.next + 2)],
          next |-> n.next + 4, ptrs |-> n.ptrs]

RECURSIVE ReadQuestions(_, _, _, _, _)
ReadQuestions(b, pos, n, acc, ptrs) ==
    IF n = 0 THEN [ok |-> TRUE, qs |-> acc, next |-> pos, ptrs |-> ptrs]
    ELSE LET r == ReadQuestion(b, pos) IN
         IF ~r.ok THEN r
         ELSE ReadQuestions(b, r.next, n - 1, Append(acc, r.q), PtrJoin(ptrs, r.ptrs))

Bit(x, mask) == (x \div mask) % 2 = 1

\* [ok |-> TRUE, msg, ptrs, used] or [ok |-> FALSE, err, hasid, id]
Denote(b) ==
    IF Len(b) < 2 THEN [ok |-> FALSE, err |-> "CompletelyBusted", hasid |-> FALSE, id |-> 0]
    ELSE LET id == U16At(b, 0)
             fail(e) == [ok |-> FALSE, err |-> e, hasid |-> TRUE, id |-> id]
         IN IF Len(b) < 12 THEN fail("HeaderTooShort")
            ELSE LET f1 == At(b, 2)  f2 == At(b, 3)
                     qs == ReadQuestions(b, 12, U16At(b, 4), <<>>, NoPtrs)
                 IN IF ~qs.ok THEN fail(qs.err)
                    ELSE LET an == ReadRRs(b, qs.next, U16At(b, 6), <<>>, NoPtrs) IN
                         IF ~an.ok THEN fail(an.err)
                         ELSE LET ns == ReadRRs(b, an.next, U16At(b, 8), <<>>, NoPtrs) IN
                              IF ~ns.ok THEN fail(ns.err)
                              ELSE LET ar == ReadRRs(b, ns.next, U16At(b, 10), <<>>, NoPtrs) IN
                                   IF ~ar.ok THEN fail(ar.err)
                                   ELSE [ok |-> TRUE,
                                         msg |-> [id |-> id, qr |-> Bit(f1, 128), opcode |-> (f1 \div 8) % 16,
                                                  aa |-> Bit(f1, 4), tc |-> Bit(f1, 2), rd |-> Bit(f1, 1),
                                                  ra |-> Bit(f2, 128), rcode |-> f2 % 16,
                                                  questions |-> qs.qs, answers |-> an.rrs,
                                                  authority |-> ns.rrs, additional |-> ar.rrs],
                                         ptrs |-> PtrJoin(PtrJoin(qs.ptrs, an.ptrs), PtrJoin(ns.ptrs, ar.ptrs)),
                                         used |-> ar.next]

\* C04: no pointer reaches into the header
PointersAfterHeader(d) == d.ptrs.n > 0 => d.ptrs.lo >= 12

-----------------------------------------------------------------------------
(* encoder (code-shaped: protocol/serialise.rs)                            *)

U16Bytes(x) == << x \div 256, x % 256 >>
BoolBit(x, v) == IF x THEN v ELSE 0

RECURSIVE FlatLabels(_)
FlatLabels(labels) ==
    IF labels = <<>> THEN <<0>>
    ELSE <<Len(labels[1])>> \o labels[1] \o FlatLabels(Tail(labels))

\* st = [out, tab] ; tab is a set of [name, off]
Known(st, name) == { e \in st.tab : e.name = name }

WriteName(st, name, compress) ==
    IF compress /\ Known(st, name) # {}
    THEN LET e == CHOOSE x \in Known(st, name) : TRUE
             \* the pointer field holds 14 bits: an offset beyond it is truncated (F2)
             ptr == e.off % 16384
         IN [st EXCEPT !.out = @ \o << 192 + (ptr \div 256), ptr % 256 >>]
    ELSE LET off == Len(st.out)
             memo == name # <<>> /\ Known(st, name) = {}
                     /\ (IF BuggyF2 THEN off < 65536 ELSE off < PtrLimit)
         IN [out |-> st.out \o FlatLabels(name),
             tab |-> IF memo THEN st.tab \cup {[name |-> name, off |-> off]} ELSE st.tab]

RECURSIVE WriteNames(_, _)
WriteNames(st, names) ==
    IF names = <<>> THEN st ELSE WriteNames(WriteName(st, names[1], FALSE), Tail(names))

RECURSIVE IntsBytes(_)
IntsBytes(ints) == IF ints = <<>> THEN <<>> ELSE U16Bytes(ints[1]) \o IntsBytes(Tail(ints))

WriteRR(st, rr) ==
    LET s1 == WriteName(st, rr.name, TRUE)
        s2 == [s1 EXCEPT !.out = @ \o U16Bytes(rr.type) \o U16Bytes(rr.class)
                                   \o U16Bytes(rr.ttl[1]) \o U16Bytes(rr.ttl[2]) \o <<0, 0>>]
        lenIdx == Len(s2.out) - 2            \* offset of RDLENGTH
        sh == Shape(rr.type)
        pre == SubSeq(rr.ints, 1, sh.pre)
        post == SubSeq(rr.ints, sh.pre + 1, Len(rr.ints))
        s3 == [s2 EXCEPT !.out = @ \o IntsBytes(pre)]
        s4 == WriteNames(s3, rr.names)
        s5 == [s4 EXCEPT !.out = @ \o IntsBytes(post) \o rr.raw]
        rdlen == Len(s5.out) - lenIdx - 2
    IN [s5 EXCEPT !.out = [@ EXCEPT ![lenIdx + 1] = rdlen \div 256, ![lenIdx + 2] = rdlen % 256]]

RECURSIVE WriteRRs(_, _)
WriteRRs(st, rrs) == IF rrs = <<>> THEN st ELSE WriteRRs(WriteRR(st, rrs[1]), Tail(rrs))

RECURSIVE WriteQuestions(_, _)
WriteQuestions(st, qs) ==
    IF qs = <<>> THEN st
    ELSE LET s1 == WriteName(st, qs[1].name, TRUE)
         IN WriteQuestions([s1 EXCEPT !.out = @ \o U16Bytes(qs[1].qtype) \o U16Bytes(qs[1].qclass)], Tail(qs))

Encode(m) ==
    LET hdr == U16Bytes(m.id)
               \o << BoolBit(m.qr, 128) + (m.opcode % 16) * 8 + BoolBit(m.aa, 4) + BoolBit(m.tc, 2) + BoolBit(m.rd, 1),
                     BoolBit(m.ra, 128) + (m.rcode % 16) >>
               \o U16Bytes(Len(m.questions)) \o U16Bytes(Len(m.answers))
               \o U16Bytes(Len(m.authority)) \o U16Bytes(Len(m.additional))
        s0 == [out |-> hdr, tab |-> {}]
    IN WriteRRs(WriteRRs(WriteRRs(WriteQuestions(s0, m.questions), m.answers), m.authority), m.additional).out

=============================================================================
