SPECIFICATION Spec
CONSTANTS
  BuggyF1 = FALSE
  MaxRecs = 3
  GenRecs = 2
  Apexes <- ApexesQuick
  Owners <- OwnersQuick
  Types <- TypesQuick
INVARIANTS Inv_C02_Equiv Inv_C02_Owned Inv_Gen
CHECK_DEADLOCK FALSE
