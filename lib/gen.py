"""Semantics-free generators of structured test data (JSON in the harness's notation).

Nothing here knows what a lookup, a merge or a parse should return: that is
decided by TLC from the TLA+ specification.
"""

LABELS = ["a", "b", "c", "www", "ns1", "ns2", "mail", "x-1", "k9", "zz"]
NAME_TYPES = ["NS", "MD", "MF", "CNAME", "MB", "MG", "MR", "PTR"]
OCTET_TYPES = ["NULL", "WKS", "HINFO", "TXT"]
ALL_TYPES = ["A", "AAAA", "MX", "SRV", "MINFO"] + NAME_TYPES + OCTET_TYPES


def dotted(name):
    return ".".join(name) + "." if name else "."


def rand_name(r, maxdepth=4, labels=LABELS, suffix=()):
    n = r.randint(0, maxdepth)
    return [r.choice(labels) for _ in range(n)] + list(suffix)


def rand_rdata(r, rtype, names=None):
    """(data string, target) for a record type, in the canonical notation of harness/src/j.rs"""
    def nm():
        if names and r.random() < 0.7:
            return list(r.choice(names))
        return rand_name(r, 3)
    if rtype == "A":
        return "%d.%d.%d.%d" % (r.randint(1, 223), r.randint(0, 255), r.randint(0, 255), r.randint(1, 254)), []
    if rtype == "AAAA":
        return "2001:db8::%x" % r.randint(1, 0xffff), []
    if rtype in NAME_TYPES:
        t = nm()
        return dotted(t), t
    if rtype == "MX":
        t = nm()
        return "%d %s" % (r.randint(0, 100), dotted(t)), t
    if rtype == "SRV":
        t = nm()
        return "%d %d %d %s" % (r.randint(0, 10), r.randint(0, 10), r.randint(1, 65535), dotted(t)), t
    if rtype == "MINFO":
        return "%s %s" % (dotted(nm()), dotted(nm())), []
    if rtype in OCTET_TYPES:
        return "x" + "".join("%02x" % r.randint(0, 255) for _ in range(r.randint(0, 6))), []
    raise ValueError(rtype)


def soa_rec(apex, minimum, serial=1):
    suf = dotted(apex) if apex else ""
    return {"name": list(apex), "wild": False, "type": "SOA",
            "data": "m.%s r.%s %d 7200 900 86400 %d" % (suf, suf, serial, minimum),
            "target": [], "ttl": minimum}


def dummy_soa():
    return {"name": [], "wild": False, "type": "NONE", "data": "", "target": [], "ttl": 0}


def is_suffix(s, n):
    return len(s) <= len(n) and list(n[len(n) - len(s):]) == list(s)


def rand_zone(r, maxrecs=40, maxdepth=4, d1free=False, types=None, ns_p=0.12, cname_p=0.12, wild_p=0.15,
              apex=None, auth=None, labels=LABELS):
    if apex is None:
        apex = rand_name(r, 2, labels=["example", "com", "lan", "z"])
    if auth is None:
        auth = r.random() < 0.6
    minimum = r.choice([0, 60, 3600]) if auth else 0
    types = types or ALL_TYPES
    owners = [rand_name(r, maxdepth, labels, apex) for _ in range(r.randint(1, 8))]
    recs = []
    for _ in range(r.randint(0, maxrecs)):
        owner = list(r.choice(owners))
        if r.random() < 0.2 and len(owner) - len(apex) < maxdepth + 1:
            owner = [r.choice(labels)] + owner
            owners.append(owner)
        x = r.random()
        if x < ns_p:
            t = "NS"
        elif x < ns_p + cname_p:
            t = "CNAME"
        else:
            t = r.choice(types)
        d, tg = rand_rdata(r, t, owners)
        recs.append({"name": owner, "wild": r.random() < wild_p, "type": t, "data": d, "target": tg,
                     "ttl": r.choice([0, 1, 30, 300, 3600, 86400, r.randint(0, 2000000)])})
    if d1free:
        cuts = [x["name"] for x in recs if x["type"] == "NS" and not x["wild"] and x["name"] != list(apex)]
        recs = [x for x in recs if not any(
            (is_suffix(c, x["name"]) and len(x["name"]) > len(c)) or (x["wild"] and x["name"] == c) for c in cuts)]
    z = {"apex": list(apex), "auth": auth, "soa": soa_rec(apex, minimum) if auth else dummy_soa(), "recs": recs}
    return z


def zone_questions(r, z, cap=80, labels=LABELS):
    apex = z["apex"]
    names = {tuple(apex)}
    for x in z["recs"]:
        n = x["name"]
        names.add(tuple(n))
        if len(n) > len(apex):
            names.add(tuple(n[1:]))
        names.add(tuple([r.choice(labels)] + n))
        names.add(tuple(["q0"] + n))
        names.add(tuple(["q1", "q0"] + n))
        if len(n) > len(apex):
            names.add(tuple([r.choice(labels)] + n[1:]))
    names = sorted(names)
    types_here = sorted({x["type"] for x in z["recs"]})
    qs = []
    for n in names:
        ts = {"ANY", "NS", "CNAME", "A", r.choice(["AXFR", "MAILA", "MAILB", "SOA", "TXT", "AAAA"])}
        if types_here:
            ts.add(r.choice(types_here))
        for t in sorted(ts):
            qs.append({"name": list(n), "type": t})
    r.shuffle(qs)
    qs = qs[:cap]
    qs.append({"name": ["outside", "invalid"], "type": "A"})
    return qs
