"""Semantics-free generators of structured test data (JSON in the harness's notation).

Nothing here knows what a lookup, a merge or a parse should return: that is
decided by TLC from the TLA+ specification.
"""

LABELS = ["a", "b", "c", "www", "ns1", "ns2", "mail", "x-1", "k9", "zz"]
NAME_TYPES = ["NS", "MD", "MF", "CNAME", "MB", "MG", "MR", "PTR"]
OCTET_TYPES = ["NULL", "WKS", "HINFO", "TXT"]
ALL_TYPES = ["A", "AAAA", "MX", "SRV", "MINFO"] + NAME_TYPES + OCTET_TYPES


def dotted(name):
    return ".".join(name) + "." if name else "."


def rand_name(r, maxdepth=4, labels=LABELS, suffix=()):
    n = r.randint(0, maxdepth)
    return [r.choice(labels) for _ in range(n)] + list(suffix)


def rand_rdata(r, rtype, names=None):
    """(data string, target) for a record type, in the canonical notation of harness/src/j.rs"""
    def nm():
        if names and r.random() < 0.7:
            return list(r.choice(names))
        return rand_name(r, 3)
    if rtype == "A":
        return "%d.%d.%d.%d" % (r.randint(1, 223), r.randint(0, 255), r.randint(0, 255), r.randint(1, 254)), []
    if rtype == "AAAA":
        return "2001:db8::%x" % r.randint(1, 0xffff), []
    if rtype in NAME_TYPES:
        t = nm()
        return dotted(t), t
    if rtype == "MX":
        t = nm()
        return "%d %s" % (r.randint(0, 100), dotted(t)), t
    if rtype == "SRV":
        t = nm()
        return "%d %d %d %s" % (r.randint(0, 10), r.randint(0, 10), r.randint(1, 65535), dotted(t)), t
    if rtype == "MINFO":
        return "%s %s" % (dotted(nm()), dotted(nm())), []
    if rtype in OCTET_TYPES:
        return "x" + "".join("%02x" % r.randint(0, 255) for _ in range(r.randint(0, 6))), []
    raise ValueError(rtype)


def soa_rec(apex, minimum, serial=1):
    suf = dotted(apex) if apex else ""
    return {"name": list(apex), "wild": False, "type": "SOA",
            "data": "m.%s r.%s %d 7200 900 86400 %d" % (suf, suf, serial, minimum),
            "target": [], "ttl": minimum}


def dummy_soa():
    return {"name": [], "wild": False, "type": "NONE", "data": "", "target": [], "ttl": 0}


def is_suffix(s, n):
    return len(s) <= len(n) and list(n[len(n) - len(s):]) == list(s)


def rand_zone(r, maxrecs=40, maxdepth=4, d1free=False, types=None, ns_p=0.12, cname_p=0.12, wild_p=0.15,
              apex=None, auth=None, labels=LABELS):
    if apex is None:
        apex = rand_name(r, 2, labels=["example", "com", "lan", "z"])
    if auth is None:
        auth = r.random() < 0.6
    minimum = r.choice([0, 60, 3600]) if auth else 0
    types = types or ALL_TYPES
    owners = [rand_name(r, maxdepth, labels, apex) for _ in range(r.randint(1, 8))]
    recs = []
    for _ in range(r.randint(0, maxrecs)):
        owner = list(r.choice(owners))
        if r.random() < 0.2 and len(owner) - len(apex) < maxdepth + 1:
            owner = [r.choice(labels)] + owner
            owners.append(owner)
        x = r.random()
        if x < ns_p:
            t = "NS"
        elif x < ns_p + cname_p:
            t = "CNAME"
        else:
            t = r.choice(types)
        d, tg = rand_rdata(r, t, owners)
        recs.append({"name": owner, "wild": r.random() < wild_p, "type": t, "data": d, "target": tg,
                     "ttl": r.choice([0, 1, 30, 300, 3600, 86400, r.randint(0, 2000000)])})
    if d1free:
        cuts = [x["name"] for x in recs if x["type"] == "NS" and not x["wild"] and x["name"] != list(apex)]
        recs = [x for x in recs if not any(
            (is_suffix(c, x["name"]) and len(x["name"]) > len(c)) or (x["wild"] and x["name"] == c) for c in cuts)]
    z = {"apex": list(apex), "auth": auth, "soa": soa_rec(apex, minimum) if auth else dummy_soa(), "recs": recs}
    return z


def zone_questions(r, z, cap=80, labels=LABELS):
    apex = z["apex"]
    names = {tuple(apex)}
    for x in z["recs"]:
        n = x["name"]
        names.add(tuple(n))
        if len(n) > len(apex):
            names.add(tuple(n[1:]))
        names.add(tuple([r.choice(labels)] + n))
        names.add(tuple(["q0"] + n))
        names.add(tuple(["q1", "q0"] + n))
        if len(n) > len(apex):
            names.add(tuple([r.choice(labels)] + n[1:]))
    names = sorted(names)
    types_here = sorted({x["type"] for x in z["recs"]})
    qs = []
    for n in names:
        ts = {"ANY", "NS", "CNAME", "A", r.choice(["AXFR", "MAILA", "MAILB", "SOA", "TXT", "AAAA"])}
        if types_here:
            ts.add(r.choice(types_here))
        for t in sorted(ts):
            qs.append({"name": list(n), "type": t})
    r.shuffle(qs)
    qs = qs[:cap]
    qs.append({"name": ["outside", "invalid"], "type": "A"})
    return qs


# ---------------------------------------------------------------------------
# wire-level messages (octet notation of specs/Wire.tla)

RAW_TYPES = [10, 11, 13, 16]
NAME1_TYPES = [2, 3, 4, 5, 7, 8, 9, 12]


def wire_label(r, maxlen=12, lower=True):
    n = r.choice([1, 1, 2, 3, 5, 8, maxlen, r.randint(1, maxlen)])
    alphabet = list(range(97, 123)) + list(range(48, 58)) + [45]
    if not lower:
        alphabet += list(range(65, 91))
    if r.random() < 0.15:
        alphabet = [x for x in range(0, 256) if lower is False or not (65 <= x <= 90)]
    return [r.choice(alphabet) for _ in range(n)]


def wire_name(r, pool=None, maxlabels=5, lower=True):
    if pool and r.random() < 0.6:
        return [list(l) for l in r.choice(pool)]
    x = r.random()
    if x < 0.05:
        return []
    if x < 0.12:
        # boundary names: maximal labels / maximal total length (255 octets encoded)
        labels = []
        total = 1
        while True:
            ln = r.choice([63, 63, 62, 1, 30])
            if total + 1 + ln > 255:
                ln = 255 - total - 1
                if ln <= 0:
                    break
                labels.append([r.choice(range(97, 123)) for _ in range(ln)])
                break
            labels.append([r.choice(range(97, 123)) for _ in range(ln)])
            total += 1 + ln
        return labels
    name = [wire_label(r, lower=lower) for _ in range(r.randint(1, maxlabels))]
    while sum(len(l) + 1 for l in name) + 1 > 255:
        name.pop()
    if pool is not None and r.random() < 0.7:
        if name and pool and r.random() < 0.4:
            sfx = r.choice(pool)
            cand = name[:2] + [list(l) for l in sfx]
            if sum(len(l) + 1 for l in cand) + 1 <= 255:
                name = cand
        pool.append(name)
    return name


def wire_rr(r, pool, rawmax=40, types=None, lower=True):
    t = r.choice(types or ([1, 28, 6, 14, 15, 33] + NAME1_TYPES + RAW_TYPES + [r.choice([0, 17, 41, 99, 251, 256, 65535])]))
    names, ints, raw = [], [], []
    if t == 1:
        raw = [r.randint(0, 255) for _ in range(4)]
    elif t == 28:
        raw = [r.randint(0, 255) for _ in range(16)]
    elif t in NAME1_TYPES:
        names = [wire_name(r, pool, lower=lower)]
    elif t == 6:
        names = [wire_name(r, pool, lower=lower), wire_name(r, pool, lower=lower)]
        ints = [r.choice([0, 1, 65535, r.randint(0, 65535)]) for _ in range(10)]
    elif t == 14:
        names = [wire_name(r, pool, lower=lower), wire_name(r, pool, lower=lower)]
    elif t == 15:
        ints = [r.randint(0, 65535)]
        names = [wire_name(r, pool, lower=lower)]
    elif t == 33:
        ints = [r.randint(0, 65535) for _ in range(3)]
        names = [wire_name(r, pool, lower=lower)]
    else:
        n = r.choice([0, 0, 1, 5, rawmax, r.randint(0, rawmax)])
        raw = [r.randint(0, 255) for _ in range(n)]
    return {"name": wire_name(r, pool, lower=lower), "type": t, "class": r.choice([1, 1, 1, 3, 254, 255, 0, 65535]),
            "ttl": [r.choice([0, 1, 65535, r.randint(0, 65535)]), r.choice([0, 300, 65535, r.randint(0, 65535)])],
            "names": names, "ints": ints, "raw": raw}


def wire_msg(r, maxrr=6, rawmax=40, lower=True, nq=None):
    pool = []
    m = {"id": r.randint(0, 65535), "qr": r.random() < 0.5, "opcode": r.choice([0, 0, 0, 1, 2, r.randint(0, 15)]),
         "aa": r.random() < 0.5, "tc": r.random() < 0.2, "rd": r.random() < 0.5, "ra": r.random() < 0.5,
         "rcode": r.choice([0, 0, 3, 2, r.randint(0, 15)]),
         "questions": [], "answers": [], "authority": [], "additional": []}
    for _ in range(r.choice([1, 1, 1, 0, 2]) if nq is None else nq):
        m["questions"].append({"name": wire_name(r, pool, lower=lower),
                               "qtype": r.choice([1, 2, 5, 15, 16, 28, 255, 252, 253, 254, r.randint(0, 65535)]),
                               "qclass": r.choice([1, 1, 255, 3, r.randint(0, 65535)])})
    for sec in ("answers", "authority", "additional"):
        for _ in range(r.randint(0, maxrr)):
            m[sec].append(wire_rr(r, pool, rawmax, lower=lower))
    return m


# ---------------------------------------------------------------------------
# zone-file text (master file syntax).  Renders structured records into text using the
# documented variants of RFC 1035 section 5; knows nothing about how the text is parsed.

import ipaddress

ZT_V4 = ["10.0.0.1", "192.168.1.20", "0.0.0.0", "255.255.255.255", "127.0.0.1"]
ZT_V6 = ["2001:db8::1", "::1", "::", "fe80::1:2", "2001:db8:0:1:2:3:4:5"]


def zt_lits():
    es = []
    for a in ZT_V4:
        es.append({"tok": [ord(c) for c in a], "v": 4, "canon": a})
    for a in ZT_V6:
        ip = ipaddress.IPv6Address(a)
        for f in {ip.compressed, ip.exploded, ip.compressed.upper()}:
            es.append({"tok": [ord(c) for c in f], "v": 6, "canon": ip.compressed})
    return es


def scan_lits(text, base):
    """register every blank-separated token of `text` that is an IP literal (so that texts not produced by the
    renderer, e.g. the repository's own zone files, can be read by the specification)"""
    known = {tuple(e["tok"]) for e in base}
    out = list(base)
    for tok in set(text.replace("(", " ").replace(")", " ").replace(";", " ").replace('"', " ").split()):
        if "%" in tok or len(tok) > 45:
            continue
        cps = tuple(ord(c) for c in tok)
        if cps in known:
            continue
        try:
            ip = ipaddress.ip_address(tok)
        except ValueError:
            continue
        if ip.version == 6 and ip.ipv4_mapped is not None:
            continue
        out.append({"tok": list(cps), "v": ip.version, "canon": ip.compressed})
        known.add(cps)
    return out


def zt_escape(octets, quoted, r):
    s = ""
    for o in octets:
        c = chr(o)
        if o < 32 or o > 126:
            s += "\\%03d" % o
        elif c in '"\\':
            s += "\\" + c
        elif not quoted and (c in ';() ' or c == '\t'):
            s += "\\" + c if r.random() < 0.7 else "\\%03d" % o
        elif r.random() < 0.05:
            s += "\\%03d" % o
        elif r.random() < 0.03 and not c.isdigit():
            s += "\\" + c
        else:
            s += c
    return '"' + s + '"' if quoted else s


def zt_name(r, labels):
    alphabet = "abcdefghijklmnopqrstuvwxyz0123456789-_"
    out = [r.choice("abcdefghijklmnopqrstuvwxyz") + "".join(r.choice(alphabet) for _ in range(r.choice([0, 1, 2, 4, 7])))
           for _ in range(labels)]
    # a label spelled like the class mnemonic in another case: an owner name, not a class (only "IN" is the class)
    if out and r.random() < 0.08:
        out[0] = "in"
    return out


def zt_render_name(r, name, origin):
    """name, origin: lists of labels. returns text (relative to origin when possible, absolute otherwise)"""
    if origin is not None and name == origin and r.random() < 0.6:
        return "@"
    if origin is not None and len(name) > len(origin) and name[len(name) - len(origin):] == origin and r.random() < 0.6 and origin:
        return ".".join(name[:len(name) - len(origin)])
    if origin is not None and not origin and name and r.random() < 0.3:
        return ".".join(name)
    return ".".join(name) + "." if name else "."


def zt_rdata(r, rtype, names, origin):
    def nm():
        return zt_render_name(r, r.choice(names), origin)

    def octs():
        n = r.choice([0, 1, 3, 8, 20])
        pool = list(range(97, 123)) + [32, 34, 59, 40, 41, 92, 64, 42, 36, 9, 0, 127, 200, 255]
        return [r.choice(pool) for _ in range(n)]
    if rtype == "A":
        return r.choice(ZT_V4)
    if rtype == "AAAA":
        ip = ipaddress.IPv6Address(r.choice(ZT_V6))
        return r.choice([ip.compressed, ip.exploded, ip.compressed.upper()])
    if rtype in NAME_TYPES:
        return nm()
    if rtype == "MX":
        return "%d %s" % (r.choice([0, 10, 65535]), nm())
    if rtype == "SRV":
        return "%d %d %d %s" % (r.randint(0, 9), r.randint(0, 9), r.choice([53, 443, 65535]), nm())
    if rtype == "MINFO":
        return "%s %s" % (nm(), nm())
    if rtype == "SOA":
        return "%s %s %d %d %d %d %d" % (nm(), nm(), r.randint(0, 99999), 7200, 900, r.choice([86400, 999999999]),
                                         r.choice([0, 60, 300, 3600]))
    o = octs()
    if not o:
        return '""'
    q = r.random() < 0.5
    return zt_escape(o, q, r)


def zt_layout(r, toks):
    """join tokens: plain, tabs, parentheses (spaced or tight), trailing comment"""
    sep = r.choice([" ", "\t", "  ", " \t"])
    x = r.random()
    if x < 0.6 or len(toks) < 3:
        line = sep.join(toks)
    elif x < 0.8:
        k = r.randint(1, len(toks) - 1)
        brk = r.choice(["\n  ", "\n\t", " ", "\n ; inner comment\n  "])
        line = sep.join(toks[:k]) + " ( " + brk.join(toks[k:]) + " )"
    else:
        k = r.randint(1, len(toks) - 1)
        line = sep.join(toks[:k]) + " (" + "\n\t".join(toks[k:]) + ")"
    if r.random() < 0.2:
        line += r.choice([" ; comment", ";c", " ; with ( and \" inside"])
    return line


def zt_file(r, fault=None):
    """a well-formed zone file (or, with `fault`, a single-fault corruption of one)"""
    apex = zt_name(r, r.choice([0, 1, 2]))
    auth = r.random() < 0.7
    if not auth and r.random() < 0.7:
        apex = []
    names = [zt_name(r, r.randint(1, 3)) + apex for _ in range(4)] + [apex] + [zt_name(r, 2)]
    lines = []
    origin = None
    if r.random() < 0.8 or fault == "no_origin":
        origin = list(apex)
        lines.append("$ORIGIN " + (".".join(apex) + "." if apex else "."))
    prev_owner = None
    have_ttl = False
    types = ["A", "AAAA", "MX", "SRV", "MINFO", "TXT", "TXT", "HINFO", "NULL", "WKS"] + NAME_TYPES
    recs = []
    if auth:
        recs.append(("SOA", apex, False))
    for _ in range(r.randint(0, 8)):
        owner = r.choice(names)
        if auth and not (len(owner) >= len(apex) and owner[len(owner) - len(apex):] == apex):
            owner = zt_name(r, 1) + apex
        recs.append((r.choice(types), owner, r.random() < 0.15))
    if fault == "two_soa" and auth:
        recs.append(("SOA", apex, False))
    if fault == "wild_soa":
        recs.append(("SOA", apex, True))
    if fault == "outside" and auth and apex:
        recs.append(("A", zt_name(r, 2), False))
    for i, (t, owner, wild) in enumerate(recs):
        if r.random() < 0.1:
            lines.append(r.choice(["", "; a comment line", "   ", "\t; indented comment"]))
        if r.random() < 0.1 and i > 0:
            new_origin = r.choice(names)
            origin = list(new_origin)
            lines.append("$ORIGIN " + (".".join(origin) + "." if origin else "."))
        toks = []
        omit_owner = prev_owner == (owner, wild) and r.random() < 0.5
        if not omit_owner:
            o = zt_render_name(r, owner, origin)
            if wild:
                o = "*" if (o == "@") else "*." + o
            toks.append(o)
        ttl = str(r.choice([0, 1, 60, 300, 3600, 86400, 604800]))
        x = r.random()
        if t == "SOA":
            mid = r.choice([["IN"], [ttl, "IN"], ["IN", ttl], []])
        elif not have_ttl or x < 0.5:
            mid = r.choice([[ttl, "IN"], ["IN", ttl], [ttl]])
        else:
            mid = r.choice([["IN"], []])
        if fault == "no_ttl" and i == 0 and t != "SOA":
            mid = r.choice([["IN"], []])
        if fault == "class" and i == len(recs) - 1:
            mid = [ttl, r.choice(["CH", "HS", "CS", "in"])]
        if omit_owner and not mid:
            mid = [ttl]            # keep the entry unambiguous: a bare "<type> <rdata>" is allowed but start with a blank
            toks.append(" ")
        toks += mid
        toks.append(t)
        toks += zt_rdata(r, t, names, origin).split(" ") if t not in OCTET_TYPES else [zt_rdata(r, t, names, origin)]
        toks = [x for x in toks if x != " "]
        line = zt_layout(r, toks)
        if omit_owner:
            line = r.choice([" ", "\t"]) + line
        lines.append(line)
        prev_owner = (owner, wild)
        have_ttl = True
    if fault == "include":
        lines.insert(r.randint(0, len(lines)), "$INCLUDE other.zone")
    if fault == "paren":
        lines.append("x 300 IN A 10.0.0.1 )")
    if fault == "escape":
        lines.append("x 300 IN TXT abc\\25")
    if fault == "badnum":
        lines.append("x 30x IN A 10.0.0.1")
    if fault == "badaddr":
        lines.append("x 300 IN A 10.0.0")
    if fault == "nonascii":
        lines.append("café 300 IN A 10.0.0.1")
    nl = r.choice(["\n", "\n", "\r\n"])
    return nl.join(lines) + (nl if r.random() < 0.8 else "")


ZT_FAULTS = ["include", "class", "two_soa", "wild_soa", "outside", "no_ttl", "paren", "escape", "badnum", "badaddr",
             "nonascii", "no_origin"]
