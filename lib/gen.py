"""Semantics-free generators of structured test data (JSON in the harness's notation).

Nothing here knows what a lookup, a merge or a parse should return: that is
decided by TLC from the TLA+ specification.
"""

LABELS = ["a", "b", "c", "www", "ns1", "ns2", "mail", "x-1", "k9", "zz"]
NAME_TYPES = ["NS", "MD", "MF", "CNAME", "MB", "MG", "MR", "PTR"]
OCTET_TYPES = ["NULL", "WKS", "HINFO", "TXT"]
ALL_TYPES = ["A", "AAAA", "MX", "SRV", "MINFO"] + NAME_TYPES + OCTET_TYPES


def dotted(name):
    return ".".join(name) + "." if name else "."


def rand_name(r, maxdepth=4, labels=LABELS, suffix=()):
    n = r.randint(0, maxdepth)
    return [r.choice(labels) for _ in range(n)] + list(suffix)


def rand_rdata(r, rtype, names=None):
    """(data string, target) for a record type, in the canonical notation of harness/src/j.rs"""
    def nm():
        if names and r.random() < 0.7:
            return list(r.choice(names))
        return rand_name(r, 3)
    if rtype == "A":
        return "%d.%d.%d.%d" % (r.randint(1, 223), r.randint(0, 255), r.randint(0, 255), r.randint(1, 254)), []
    if rtype == "AAAA":
        return "2001:db8::%x" % r.randint(1, 0xffff), []
    if rtype in NAME_TYPES:
        t = nm()
        return dotted(t), t
    if rtype == "MX":
        t = nm()
        return "%d %s" % (r.randint(0, 100), dotted(t)), t
    if rtype == "SRV":
        t = nm()
        return "%d %d %d %s" % (r.randint(0, 10), r.randint(0, 10), r.randint(1, 65535), dotted(t)), t
    if rtype == "MINFO":
        return "%s %s" % (dotted(nm()), dotted(nm())), []
    if rtype in OCTET_TYPES:
        return "x" + "".join("%02x" % r.randint(0, 255) for _ in range(r.randint(0, 6))), []
    raise ValueError(rtype)


def soa_rec(apex, minimum, serial=1):
    suf = dotted(apex) if apex else ""
    return {"name": list(apex), "wild": False, "type": "SOA",
            "data": "m.%s r.%s %d 7200 900 86400 %d" % (suf, suf, serial, minimum),
            "target": [], "ttl": minimum}


def dummy_soa():
    return {"name": [], "wild": False, "type": "NONE", "data": "", "target": [], "ttl": 0}


def is_suffix(s, n):
    return len(s) <= len(n) and list(n[len(n) - len(s):]) == list(s)


def rand_zone(r, maxrecs=40, maxdepth=4, d1free=False, types=None, ns_p=0.12, cname_p=0.12, wild_p=0.15,
              apex=None, auth=None, labels=LABELS):
    if apex is None:
        apex = rand_name(r, 2, labels=["example", "com", "lan", "z"])
    if auth is None:
        auth = r.random() < 0.6
    minimum = r.choice([0, 60, 3600]) if auth else 0
    types = types or ALL_TYPES
    owners = [rand_name(r, maxdepth, labels, apex) for _ in range(r.randint(1, 8))]
    recs = []
    for _ in range(r.randint(0, maxrecs)):
        owner = list(r.choice(owners))
        if r.random() < 0.2 and len(owner) - len(apex) < maxdepth + 1:
            owner = [r.choice(labels)] + owner
            owners.append(owner)
        x = r.random()
        if x < ns_p:
            t = "NS"
        elif x < ns_p + cname_p:
            t = "CNAME"
        else:
            t = r.choice(types)
        d, tg = rand_rdata(r, t, owners)
        recs.append({"name": owner, "wild": r.random() < wild_p, "type": t, "data": d, "target": tg,
                     "ttl": r.choice([0, 1, 30, 300, 3600, 86400, r.randint(0, 2000000)])})
    if d1free:
        cuts = [x["name"] for x in recs if x["type"] == "NS" and not x["wild"] and x["name"] != list(apex)]
        recs = [x for x in recs if not any(
            (is_suffix(c, x["name"]) and len(x["name"]) > len(c)) or (x["wild"] and x["name"] == c) for c in cuts)]
    z = {"apex": list(apex), "auth": auth, "soa": soa_rec(apex, minimum) if auth else dummy_soa(), "recs": recs}
    return z


def zone_questions(r, z, cap=80, labels=LABELS):
    apex = z["apex"]
    names = {tuple(apex)}
    for x in z["recs"]:
        n = x["name"]
        names.add(tuple(n))
        if len(n) > len(apex):
            names.add(tuple(n[1:]))
        names.add(tuple([r.choice(labels)] + n))
        names.add(tuple(["q0"] + n))
        names.add(tuple(["q1", "q0"] + n))
        if len(n) > len(apex):
            names.add(tuple([r.choice(labels)] + n[1:]))
    names = sorted(names)
    types_here = sorted({x["type"] for x in z["recs"]})
    qs = []
    for n in names:
        ts = {"ANY", "NS", "CNAME", "A", r.choice(["AXFR", "MAILA", "MAILB", "SOA", "TXT", "AAAA"])}
        if types_here:
            ts.add(r.choice(types_here))
        for t in sorted(ts):
            qs.append({"name": list(n), "type": t})
    r.shuffle(qs)
    qs = qs[:cap]
    qs.append({"name": ["outside", "invalid"], "type": "A"})
    return qs


# ---------------------------------------------------------------------------
# wire-level messages (octet notation of specs/Wire.tla)

RAW_TYPES = [10, 11, 13, 16]
NAME1_TYPES = [2, 3, 4, 5, 7, 8, 9, 12]


def wire_label(r, maxlen=12, lower=True):
    n = r.choice([1, 1, 2, 3, 5, 8, maxlen, r.randint(1, maxlen)])
    alphabet = list(range(97, 123)) + list(range(48, 58)) + [45]
    if not lower:
        alphabet += list(range(65, 91))
    if r.random() < 0.15:
        alphabet = [x for x in range(0, 256) if lower is False or not (65 <= x <= 90)]
    return [r.choice(alphabet) for _ in range(n)]


def wire_name(r, pool=None, maxlabels=5, lower=True):
    if pool and r.random() < 0.6:
        return [list(l) for l in r.choice(pool)]
    x = r.random()
    if x < 0.05:
        return []
    if x < 0.12:
        # boundary names: maximal labels / maximal total length (255 octets encoded)
        labels = []
        total = 1
        while True:
            ln = r.choice([63, 63, 62, 1, 30])
            if total + 1 + ln > 255:
                ln = 255 - total - 1
                if ln <= 0:
                    break
                labels.append([r.choice(range(97, 123)) for _ in range(ln)])
                break
            labels.append([r.choice(range(97, 123)) for _ in range(ln)])
            total += 1 + ln
        return labels
    name = [wire_label(r, lower=lower) for _ in range(r.randint(1, maxlabels))]
    while sum(len(l) + 1 for l in name) + 1 > 255:
        name.pop()
    if pool is not None and r.random() < 0.7:
        if name and pool and r.random() < 0.4:
            sfx = r.choice(pool)
            cand = name[:2] + [list(l) for l in sfx]
            if sum(len(l) + 1 for l in cand) + 1 <= 255:
                name = cand
        pool.append(name)
    return name


def wire_rr(r, pool, rawmax=40, types=None, lower=True):
    t = r.choice(types or ([1, 28, 6, 14, 15, 33] + NAME1_TYPES + RAW_TYPES + [r.choice([0, 17, 41, 99, 251, 256, 65535])]))
    names, ints, raw = [], [], []
    if t == 1:
        raw = [r.randint(0, 255) for _ in range(4)]
    elif t == 28:
        raw = [r.randint(0, 255) for _ in range(16)]
    elif t in NAME1_TYPES:
        names = [wire_name(r, pool, lower=lower)]
    elif t == 6:
        names = [wire_name(r, pool, lower=lower), wire_name(r, pool, lower=lower)]
        ints = [r.choice([0, 1, 65535, r.randint(0, 65535)]) for _ in range(10)]
    elif t == 14:
        names = [wire_name(r, pool, lower=lower), wire_name(r, pool, lower=lower)]
    elif t == 15:
        ints = [r.randint(0, 65535)]
        names = [wire_name(r, pool, lower=lower)]
    elif t == 33:
        ints = [r.randint(0, 65535) for _ in range(3)]
        names = [wire_name(r, pool, lower=lower)]
    else:
        n = r.choice([0, 0, 1, 5, rawmax, r.randint(0, rawmax)])
        raw = [r.randint(0, 255) for _ in range(n)]
    return {"name": wire_name(r, pool, lower=lower), "type": t, "class": r.choice([1, 1, 1, 3, 254, 255, 0, 65535]),
            "ttl": [r.choice([0, 1, 65535, r.randint(0, 65535)]), r.choice([0, 300, 65535, r.randint(0, 65535)])],
            "names": names, "ints": ints, "raw": raw}


def wire_msg(r, maxrr=6, rawmax=40, lower=True, nq=None):
    pool = []
    m = {"id": r.randint(0, 65535), "qr": r.random() < 0.5, "opcode": r.choice([0, 0, 0, 1, 2, r.randint(0, 15)]),
         "aa": r.random() < 0.5, "tc": r.random() < 0.2, "rd": r.random() < 0.5, "ra": r.random() < 0.5,
         "rcode": r.choice([0, 0, 3, 2, r.randint(0, 15)]),
         "questions": [], "answers": [], "authority": [], "additional": []}
    for _ in range(r.choice([1, 1, 1, 0, 2]) if nq is None else nq):
        m["questions"].append({"name": wire_name(r, pool, lower=lower),
                               "qtype": r.choice([1, 2, 5, 15, 16, 28, 255, 252, 253, 254, r.randint(0, 65535)]),
                               "qclass": r.choice([1, 1, 255, 3, r.randint(0, 65535)])})
    for sec in ("answers", "authority", "additional"):
        for _ in range(r.randint(0, maxrr)):
            m[sec].append(wire_rr(r, pool, rawmax, lower=lower))
    return m
