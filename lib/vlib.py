"""Shared machinery for the resolved verification checks.

TLC is the oracle; the Rust harness (vh) is a dumb pipe; this library only
moves files between the two, runs them, and writes evidence.
"""
import json
import os
import random
import re
import shutil
import subprocess
import sys
import time

VERIF = os.path.dirname(os.path.dirname(os.path.abspath(__file__)))
REPO = "/repo"
BUILD = os.path.join(VERIF, ".build")
SPECS = os.path.join(VERIF, "specs")
EVID = os.path.join(VERIF, "evidence")
REPLAYS = os.path.join(VERIF, "replays")
TLA_CP = "/opt/veriftools/tla/tla2tools.jar:/opt/veriftools/tla/CommunityModules-deps.jar"
NCPU = os.cpu_count() or 4


class ToolError(Exception):
    """A failure of the machinery itself (exit status 2, never a violation)."""


def log(*a):
    print("[check]", *a, file=sys.stderr, flush=True)


def ensure_dirs():
    for d in (BUILD, os.path.join(BUILD, "tmp"), os.path.join(BUILD, "tlc"),
              os.path.join(BUILD, "work"), EVID, REPLAYS):
        os.makedirs(d, exist_ok=True)


def workdir(name):
    d = os.path.join(BUILD, "work", name)
    shutil.rmtree(d, ignore_errors=True)
    os.makedirs(d)
    return d


def seed():
    try:
        return int(os.environ.get("VERIF_SEED", "1"))
    except ValueError:
        return 1


# ---------------------------------------------------------------------------
# building

_built = {}


def build_harness():
    """(Re)build the harness against /repo's current working tree, hooks on."""
    if "vh" in _built:
        return _built["vh"]
    ensure_dirs()
    hdir = os.path.join(VERIF, "harness")
    shutil.copyfile(os.path.join(REPO, "Cargo.lock"), os.path.join(hdir, "Cargo.lock"))
    env = dict(os.environ)
    env["CARGO_NET_OFFLINE"] = "true"
    t0 = time.time()
    p = subprocess.run(["cargo", "build", "--release", "--offline", "-q"], cwd=hdir, env=env,
                       stdout=subprocess.PIPE, stderr=subprocess.STDOUT, text=True)
    if p.returncode != 0:
        sys.stderr.write(p.stdout[-6000:])
        raise ToolError("harness build failed")
    log("harness built in %.1fs" % (time.time() - t0))
    _built["vh"] = os.path.join(BUILD, "target", "release", "vh")
    return _built["vh"]


def build_repo_bins():
    """Build the repository's own binaries (release, no hooks) from /repo."""
    if "bins" in _built:
        return _built["bins"]
    ensure_dirs()
    tdir = os.path.join(BUILD, "repo-target")
    env = dict(os.environ)
    env["CARGO_NET_OFFLINE"] = "true"
    env["CARGO_TARGET_DIR"] = tdir
    t0 = time.time()
    p = subprocess.run(["cargo", "build", "--release", "--offline", "-q", "--bins"], cwd=REPO, env=env,
                       stdout=subprocess.PIPE, stderr=subprocess.STDOUT, text=True)
    if p.returncode != 0:
        sys.stderr.write(p.stdout[-6000:])
        raise ToolError("repo build failed")
    log("repo binaries built in %.1fs" % (time.time() - t0))
    _built["bins"] = os.path.join(tdir, "release")
    return _built["bins"]


def vh(args, timeout=600, env=None, check=True):
    exe = build_harness()
    e = dict(os.environ)
    if env:
        e.update(env)
    t0 = time.time()
    try:
        p = subprocess.run([exe] + list(args), stdout=subprocess.PIPE, stderr=subprocess.PIPE,
                           text=True, timeout=timeout, env=e)
    except subprocess.TimeoutExpired:
        raise ToolError("vh %s timed out" % args[0])
    if check and p.returncode != 0:
        sys.stderr.write(p.stderr[-4000:])
        raise ToolError("vh %s failed with status %d" % (args[0], p.returncode))
    log("vh %s: %.1fs" % (args[0], time.time() - t0))
    return p


# ---------------------------------------------------------------------------
# TLC

class TlcResult:
    def __init__(self):
        self.out = ""
        self.generated = 0
        self.distinct = 0
        self.depth = 0
        self.ok = False            # "Model checking completed. No error has been found."
        self.violated = None       # name of violated invariant / property, or "postcondition" ...
        self.error = None          # other TLC error text
        self.printed = []          # values printed with PrintT(<<"TAG", ...>>), raw lines
        self.wall = 0.0
        self.coverage = {}

    def tagged(self, tag):
        """JSON payloads of lines printed as PrintT(<<"TAG", ToJson(x)>>)."""
        pre = '<<"%s", "' % tag
        res = []
        for ln in self.printed:
            if ln.startswith(pre) and ln.endswith('">>'):
                inner = ln[len(pre):-3]
                res.append(json.loads(json.loads('"' + inner + '"')))
        return res

    def tagged_raw(self, tag):
        pre = '<<"%s", ' % tag
        return [ln[len(pre):-2] for ln in self.printed if ln.startswith(pre)]


_run_counter = [0]


def tlc(module, cfg, workers=None, env=None, timeout=1800, dfs=False, xmx="8g", simulate=None,
        depth=None, extra=None, cfg_text=None, coverage=False):
    """Run TLC on specs/<module>.tla with specs/<cfg> (or cfg_text written to a temp cfg)."""
    ensure_dirs()
    _run_counter[0] += 1
    tag = "%s-%d-%d" % (module, os.getpid(), _run_counter[0])
    meta = os.path.join(BUILD, "tlc", tag)
    tmp = os.path.join(BUILD, "tmp", tag)
    os.makedirs(tmp, exist_ok=True)
    # self-test (bin/selftest): switch a pre-fix behaviour of the code-shaped specification back on; every check
    # that depends on it must then report a violation
    buggy = [b for b in os.environ.get("VERIF_SELFTEST_BUGGY", "").split(",") if b]
    if buggy and cfg_text is None:
        with open(os.path.join(SPECS, cfg)) as f:
            cfg_text = f.read()
    for b in buggy:
        cfg_text = re.sub(r"\bBuggy%s = FALSE" % re.escape(b), "Buggy%s = TRUE" % b, cfg_text)
    if cfg_text is not None:
        cfgpath = os.path.join(tmp, module + ".cfg")
        with open(cfgpath, "w") as f:
            f.write(cfg_text)
    else:
        cfgpath = os.path.join(SPECS, cfg)
    if workers is None:
        workers = max(1, NCPU - 4)
    jopts = ["-XX:+UseParallelGC", "-Xss1g", "-Xmx" + xmx, "-Djava.io.tmpdir=" + tmp]
    if dfs:
        jopts.append("-Dtlc2.tool.queue.IStateQueue=StateDeque")
    cmd = ["java"] + jopts + ["-cp", TLA_CP, "tlc2.TLC", "-workers", str(workers),
                              "-metadir", meta, "-cleanup", "-noGenerateSpecTE", "-config", cfgpath]
    if coverage:
        cmd += ["-coverage", "1"]
    if simulate is not None:
        cmd += ["-simulate", "num=%d" % simulate]
        if depth is not None:
            cmd += ["-depth", str(depth)]
        cmd += ["-seed", str(seed())]
    if extra:
        cmd += list(extra)
    cmd.append(os.path.join(SPECS, module + ".tla"))
    e = dict(os.environ)
    e.pop("JAVA_TOOL_OPTIONS", None)
    if env:
        e.update({k: str(v) for k, v in env.items()})
    r = TlcResult()
    t0 = time.time()
    try:
        p = subprocess.run(cmd, cwd=SPECS, env=e, stdout=subprocess.PIPE, stderr=subprocess.STDOUT,
                           text=True, timeout=timeout)
        r.out = p.stdout
    except subprocess.TimeoutExpired as ex:
        shutil.rmtree(meta, ignore_errors=True)
        shutil.rmtree(tmp, ignore_errors=True)
        raise ToolError("TLC timed out on %s (%ds)" % (module, timeout))
    finally:
        r.wall = time.time() - t0
    shutil.rmtree(meta, ignore_errors=True)
    shutil.rmtree(tmp, ignore_errors=True)
    text_lines = []
    for ln in r.out.splitlines():
        if ln.startswith("<<"):
            r.printed.append(ln)
        elif len(ln) < 2000:
            text_lines.append(ln)
    full_out = r.out
    r.out = "\n".join(text_lines)      # TLC's own messages only (printed values can be huge)
    m = re.search(r"(\d[\d,]*) states generated, (\d[\d,]*) distinct states found", r.out)
    if m:
        r.generated = int(m.group(1).replace(",", ""))
        r.distinct = int(m.group(2).replace(",", ""))
    m = re.search(r"depth of the complete state graph search is (\d+)", r.out)
    if m:
        r.depth = int(m.group(1))
    if "No error has been found" in r.out or (simulate is not None and "Finished in" in r.out and "Error:" not in r.out):
        r.ok = True
    m = re.search(r"Error: Invariant (\S+) is violated", r.out)
    if m:
        r.violated = m.group(1)
    m2 = re.search(r"Error: Action property (\S+) is violated", r.out)
    if m2:
        r.violated = m2.group(1)
    if "Temporal properties were violated" in r.out:
        r.violated = r.violated or "temporal"
    if re.search(r"Error: Postcondition .* is false", r.out):
        r.violated = r.violated or "postcondition"
        r.ok = False
    if not r.ok and not r.violated:
        m = re.search(r"Error: (.*)", r.out)
        r.error = (m.group(1) if m else "TLC did not finish") + "\n" + r.out[-3000:]
    log("TLC %s/%s: %d distinct, %d generated, %.1fs, %s" % (
        module, cfg or "inline", r.distinct, r.generated, r.wall,
        "ok" if r.ok else ("VIOLATED " + str(r.violated) if r.violated else "ERROR")))
    return r


def require_ok(r, what):
    if r.error:
        sys.stderr.write(r.error + "\n")
        raise ToolError("TLC error in " + what)


# ---------------------------------------------------------------------------
# ndjson helpers

def write_ndjson(path, items):
    with open(path, "w") as f:
        for it in items:
            f.write(json.dumps(it, separators=(",", ":")) + "\n")


def read_ndjson(path):
    res = []
    with open(path) as f:
        for ln in f:
            ln = ln.strip()
            if ln:
                res.append(json.loads(ln))
    return res


# ---------------------------------------------------------------------------
# findings, evidence, verdicts

def known_findings():
    p = os.path.join(VERIF, "known_findings.json")
    if not os.path.exists(p):
        return {"known": [], "fixed": []}
    with open(p) as f:
        return json.load(f)


_current_verdict = [None]


def current_verdict():
    return _current_verdict[0]


class Verdict:
    """Collects what a check did; writes evidence; prints VIOLATION / KNOWN-FINDING lines."""

    def __init__(self, pid, tier, level):
        _current_verdict[0] = self
        self.pid = pid
        self.tier = tier
        self.level = level
        self.t0 = time.time()
        self.states = 0
        self.transitions = 0
        self.traces = 0
        self.evaluations = 0
        self.distinct = 0
        self.samples = []
        self.assumptions = []
        self.notes = {}
        self.violations = []     # (description, replay object)
        self.known_hits = []
        self.rule = ""
        self.exhaustive = False
        kf = known_findings()
        self.known = [k for k in kf.get("known", []) if k.get("property") == pid]

    def add_tlc(self, r):
        self.states += r.distinct
        self.transitions += r.generated

    def sample(self, x, cap=6):
        if len(self.samples) < cap:
            self.samples.append(x)

    def violation(self, desc, replay_obj, fingerprint=None):
        """Report a violation unless it matches a listed known finding (by fingerprint)."""
        for k in self.known:
            if fingerprint is not None and k.get("fingerprint") == fingerprint:
                if k["fingerprint"] not in [h["fingerprint"] for h in self.known_hits]:
                    self.known_hits.append(k)
                return
        self.violations.append((desc, replay_obj))

    def finish(self):
        ensure_dirs()
        wall = time.time() - self.t0
        for k in self.known_hits:
            print("KNOWN-FINDING: property=%s %s" % (self.pid, k.get("what", k.get("fingerprint"))))
        cov = {
            "states": self.states,
            "transitions": self.transitions,
            "traces_validated_against_impl": self.traces,
            "evaluations": max(self.evaluations, 1),
            "distinct_nontrivial": max(self.distinct, 2) if self.distinct >= 2 else self.distinct,
            "rule": self.rule,
            "samples": self.samples if self.samples else ["(none)"],
            "exhaustive": self.exhaustive,
        }
        cov.update(self.notes)
        ev = {
            "property_id": self.pid,
            "tier": self.tier,
            "seed": seed(),
            "level": self.level,
            "coverage": cov,
            "assumptions": self.assumptions,
            "wall_s": round(wall, 1),
            "violations": len(self.violations),
        }
        with open(os.path.join(EVID, self.pid + ".json"), "w") as f:
            json.dump(ev, f, indent=1, sort_keys=True)
            f.write("\n")
        if self.violations:
            for i, (desc, obj) in enumerate(self.violations[:5]):
                path = os.path.join(REPLAYS, "%s-%d-%d.json" % (self.pid, int(self.t0), i))
                with open(path, "w") as f:
                    json.dump({"property": self.pid, "what": desc, "replay": obj}, f, indent=1)
                    f.write("\n")
                print("VIOLATION property=%s replay=%s" % (self.pid, path))
                log("violation:", desc)
            return 1
        log("%s %s: held on everything explored (%.0fs)" % (self.pid, self.tier, wall))
        return 0


def rng(extra=0):
    return random.Random(seed() * 1000003 + extra)
