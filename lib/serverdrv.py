"""Driving the real `resolved` binary over sockets (black box: no hooks).

Structure only: starting / stopping the process, writing configuration files, sending octets and collecting octets.
Every verdict on what came back is TLC's (ServerTrace / ReloadTrace).
"""
import ipaddress
import os
import signal
import socket
import struct
import subprocess
import threading
import time

import vlib


def free_port():
    s = socket.socket(socket.AF_INET, socket.SOCK_STREAM)
    s.bind(("127.0.0.1", 0))
    p = s.getsockname()[1]
    s.close()
    return p


def octets(name):
    return [[ord(c) for c in l] for l in name]


def wire_form(rtype, data):
    """(wtype, names, ints, raw) of a record given in the resolver-level notation (a format conversion only)"""
    def nm(d):
        return octets([l for l in d.rstrip(".").split(".") if l]) if d != "." else []
    codes = {"A": 1, "NS": 2, "MD": 3, "MF": 4, "CNAME": 5, "SOA": 6, "MB": 7, "MG": 8, "MR": 9, "NULL": 10, "WKS": 11,
             "PTR": 12, "HINFO": 13, "MINFO": 14, "MX": 15, "TXT": 16, "AAAA": 28, "SRV": 33}
    t = codes[rtype]
    if rtype == "A":
        return t, [], [], list(ipaddress.IPv4Address(data).packed)
    if rtype == "AAAA":
        return t, [], [], list(ipaddress.IPv6Address(data).packed)
    if rtype in ("NS", "MD", "MF", "CNAME", "MB", "MG", "MR", "PTR"):
        return t, [nm(data)], [], []
    if rtype == "MX":
        p, d = data.split(" ")
        return t, [nm(d)], [int(p)], []
    if rtype == "SRV":
        a, b, c, d = data.split(" ")
        return t, [nm(d)], [int(a), int(b), int(c)], []
    if rtype == "MINFO":
        a, b = data.split(" ")
        return t, [nm(a), nm(b)], [], []
    if rtype == "SOA":
        parts = data.split(" ")
        ints = []
        for x in parts[2:]:
            v = int(x)
            ints += [v >> 16, v & 0xFFFF]
        return t, [nm(parts[0]), nm(parts[1])], ints, []
    return t, [], [], list(bytes.fromhex(data[1:]))


def config_line(zones, mode):
    """the `config` trace line: zones with octet labels and the wire form of every (type, data)"""
    zs = []
    rdmap = {}
    for z in zones:
        def conv(r):
            wt, names, ints, raw = wire_form(r["type"], r["data"])
            rdmap[(r["type"], r["data"])] = {"type": r["type"], "data": r["data"], "wtype": wt, "names": names,
                                             "ints": ints, "raw": raw}
            return {"name": octets(r["name"]), "wild": r["wild"], "type": r["type"], "data": r["data"],
                    "target": octets(r["target"]), "ttl": r["ttl"]}
        soa = conv(z["soa"]) if z["auth"] else {"name": [], "wild": False, "type": "NONE", "data": "", "target": [], "ttl": 0}
        zs.append({"apex": octets(z["apex"]), "auth": z["auth"], "soa": soa, "recs": [conv(r) for r in z["recs"]]})
    return {"ev": "config", "auth_only": mode == "auth", "mode": mode, "zones": zs, "rdmap": list(rdmap.values())}


class Server:
    def __init__(self, workdir, extra_args, env=None):
        self.bin = os.path.join(vlib.build_repo_bins(), "resolved")
        self.port = free_port()
        self.mport = free_port()
        self.log = open(os.path.join(workdir, "server-%d.log" % self.port), "wb")
        e = dict(os.environ)
        e["RUST_LOG"] = "info"
        e["RUST_LOG_FORMAT"] = "no-ansi,no-time"
        if env:
            e.update(env)
        self.proc = subprocess.Popen([self.bin, "--address", "127.0.0.1:%d" % self.port, "--metrics-address",
                                      "127.0.0.1:%d" % self.mport] + list(extra_args), stdout=self.log, stderr=self.log, env=e)
        self.logpath = self.log.name
        if not self.wait_ready():
            self.stop()
            raise vlib.ToolError("the server did not start (see %s)" % self.logpath)

    def alive(self):
        return self.proc.poll() is None

    def wait_ready(self, timeout=20.0):
        # a STATUS request: answered NOTIMP at once in every mode (an ordinary query might wait for an upstream)
        probe = bytes.fromhex("beef10000001000000000000") + b"\x05probe\x07invalid\x00\x00\x01\x00\x01"
        t0 = time.time()
        while time.time() - t0 < timeout:
            if not self.alive():
                return False
            r = udp_exchange(self.port, probe, wait=0.2)
            if r["present"]:
                return True
        return False

    def signal_reload(self):
        self.proc.send_signal(signal.SIGUSR1)

    def log_text(self):
        self.log.flush()
        with open(self.logpath, "rb") as f:
            return f.read().decode("utf-8", "replace")

    def stop(self):
        if self.alive():
            self.proc.terminate()
            try:
                self.proc.wait(timeout=5)
            except subprocess.TimeoutExpired:
                self.proc.kill()
        self.log.close()


PROBE = bytes.fromhex("0bad01000001000000000000") + b"\x05probe\x07invalid\x00\x00\x01\x00\x01"


def udp_exchange(port, data, wait=0.5, probe=False):
    """send one datagram from a fresh socket; return the first reply and the number of extra ones.
    With probe=True a well-formed query is sent afterwards on the same socket: "no reply" is only reported once
    that later query has been answered."""
    s = socket.socket(socket.AF_INET, socket.SOCK_DGRAM)
    s.settimeout(wait)
    res = {"present": False, "bytes": [], "prefix": 0, "extra": 0}
    try:
        s.sendto(data, ("127.0.0.1", port))
        got = []
        try:
            b, _ = s.recvfrom(70000)
            got.append(b)
        except socket.timeout:
            pass
        if probe or not got:
            s.sendto(PROBE, ("127.0.0.1", port))
            deadline = time.time() + 2.0
            seen_probe = False
            while time.time() < deadline:
                try:
                    s.settimeout(0.05 if seen_probe else 0.5)
                    b, _ = s.recvfrom(70000)
                    if len(b) >= 2 and b[:2] == PROBE[:2] and data[:2] != PROBE[:2]:
                        seen_probe = True
                    else:
                        got.append(b)
                except socket.timeout:
                    if seen_probe:
                        break
            res["probe_answered"] = seen_probe
        if got:
            res["present"] = True
            res["bytes"] = list(got[0])
            res["extra"] = len(got) - 1
    finally:
        s.close()
    return res


def tcp_exchange(port, data, declared=None, wait=2.0):
    """one length-prefixed message on a fresh connection; `declared` may exceed len(data) (short read, early close)"""
    res = {"present": False, "bytes": [], "prefix": 0, "extra": 0}
    declared = len(data) if declared is None else declared
    s = socket.socket(socket.AF_INET, socket.SOCK_STREAM)
    s.settimeout(wait)
    try:
        s.connect(("127.0.0.1", port))
        s.sendall(struct.pack("!H", declared) + data)
        try:
            s.shutdown(socket.SHUT_WR)
        except OSError:
            pass
        buf = b""
        while True:
            try:
                b = s.recv(70000)
            except (socket.timeout, ConnectionResetError):
                break
            if not b:
                break
            buf += b
        if len(buf) >= 2:
            res["present"] = True
            res["prefix"] = struct.unpack("!H", buf[:2])[0]
            res["bytes"] = list(buf[2:])
    except (ConnectionRefusedError, socket.timeout):
        pass
    finally:
        s.close()
    return res


class MockUpstream:
    """UDP + TCP responder on 127.0.0.1:port answering from a table {(qname octets bytes, qtype): reply octets};
    the ID and nothing else is patched into the pre-encoded reply.  Behaviours: "table", "silent", "wrong_id_stream"."""

    def __init__(self, table, behaviour="table", addr="127.0.0.1"):
        self.table = table
        self.behaviour = behaviour
        self.udp = socket.socket(socket.AF_INET, socket.SOCK_DGRAM)
        self.udp.bind((addr, 0))
        self.port = self.udp.getsockname()[1]
        self.tcp = socket.socket(socket.AF_INET, socket.SOCK_STREAM)
        self.tcp.setsockopt(socket.SOL_SOCKET, socket.SO_REUSEADDR, 1)
        self.tcp.bind((addr, self.port))
        self.tcp.listen(16)
        self.stopflag = False
        self.seen = []
        self.threads = [threading.Thread(target=self.run_udp, daemon=True), threading.Thread(target=self.run_tcp, daemon=True)]
        for t in self.threads:
            t.start()

    def answer(self, req):
        if len(req) < 17:
            return None
        # question = octets after the 12-octet header up to and including QTYPE/QCLASS
        i = 12
        while i < len(req) and req[i] != 0:
            i += 1 + req[i]
        key = (bytes(req[12:i + 1]).lower(), req[i + 1] * 256 + req[i + 2] if i + 2 < len(req) else 0)
        self.seen.append(key)
        rep = self.table.get(key)
        if rep is None:
            # not in the table: SERVFAIL, echoing the question (so that nothing waits for a time-out)
            if i + 5 > len(req):
                return None
            return bytes(req[:2]) + bytes([0x80 | (req[2] & 0x79), 0x02]) + b"\x00\x01\x00\x00\x00\x00\x00\x00" + bytes(req[12:i + 5])
        return bytes(req[:2]) + rep[2:]

    def question_end(self, req):
        i = 12
        while i < len(req) and req[i] != 0:
            i += 1 + req[i]
        return i + 5

    def empty_reply(self, req):
        """NOERROR, recursion available, the question echoed, no records"""
        qe = self.question_end(req)
        if qe > len(req):
            return None
        return bytes(req[:2]) + bytes([0x80 | (req[2] & 1), 0x80]) + b"\x00\x01\x00\x00\x00\x00\x00\x00" + bytes(req[12:qe])

    def one_a_reply(self, req, tc=False):
        """the request's question answered with one A record (or, with tc, an empty truncated reply)"""
        qe = self.question_end(req)
        if qe > len(req):
            return None
        hdr = bytes(req[:2]) + bytes([0x80 | (req[2] & 1) | (2 if tc else 0), 0x80]) + b"\x00\x01" + (b"\x00\x00" if tc else b"\x00\x01") + b"\x00\x00\x00\x00"
        rep = hdr + bytes(req[12:qe])
        if not tc:
            rep += b"\xc0\x0c\x00\x01\x00\x01\x00\x00\x00\x3c\x00\x04\xc0\x00\x02\x07"
        return rep

    def run_udp(self):
        self.udp.settimeout(0.2)
        while not self.stopflag:
            try:
                req, peer = self.udp.recvfrom(4096)
            except socket.timeout:
                continue
            except OSError:
                return
            if self.behaviour == "silent":
                continue
            if self.behaviour == "empty":
                rep = self.empty_reply(req)
                if rep:
                    self.udp.sendto(rep, peer)
                continue
            if self.behaviour.startswith("tcp_"):
                # over UDP only a truncated reply: the resolver has to come back over TCP
                rep = self.one_a_reply(req, tc=True)
                if rep:
                    self.udp.sendto(rep, peer)
                continue
            if self.behaviour == "wrong_id_stream":
                rep = self.answer(req)
                if rep:
                    bad = bytes([rep[0] ^ 0xFF, rep[1]]) + rep[2:]

                    def stream(peer=peer, bad=bad):
                        for _ in range(12):
                            if self.stopflag:
                                return
                            try:
                                self.udp.sendto(bad, peer)
                            except OSError:
                                return
                            time.sleep(2.0)
                    threading.Thread(target=stream, daemon=True).start()
                continue
            rep = self.answer(req)
            if rep:
                self.udp.sendto(rep[:512], peer)

    def run_tcp(self):
        self.tcp.settimeout(0.2)
        while not self.stopflag:
            try:
                c, _ = self.tcp.accept()
            except socket.timeout:
                continue
            except OSError:
                return
            try:
                if self.behaviour in ("silent", "wrong_id_stream"):
                    continue
                c.settimeout(1.0)
                hdr = c.recv(2)
                if len(hdr) == 2:
                    n = struct.unpack("!H", hdr)[0]
                    req = b""
                    while len(req) < n:
                        b = c.recv(n - len(req))
                        if not b:
                            break
                        req += b
                    if self.behaviour == "empty":
                        rep = self.empty_reply(req)
                        if rep:
                            c.sendall(struct.pack("!H", len(rep)) + rep)
                        continue
                    if self.behaviour.startswith("tcp_"):
                        # tcp_full: the whole reply; tcp_cut:N: the length prefix, N octets of the reply, then the
                        # connection is closed; tcp_prefix:N: only N octets of the length prefix
                        rep = self.one_a_reply(req)
                        if rep:
                            framed = struct.pack("!H", len(rep)) + rep
                            kind, _, arg = self.behaviour.partition(":")
                            if kind == "tcp_full":
                                c.sendall(framed)
                            elif kind == "tcp_cut":
                                c.sendall(framed[:2 + int(arg)])
                            elif kind == "tcp_prefix":
                                c.sendall(framed[:int(arg)])
                        continue
                    rep = self.answer(req)
                    if rep:
                        c.sendall(struct.pack("!H", len(rep)) + rep)
            except OSError:
                pass
            finally:
                c.close()

    def stop(self):
        self.stopflag = True
        time.sleep(0.3)
        self.udp.close()
        self.tcp.close()
