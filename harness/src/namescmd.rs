//! Name constructors (C16): run a constructor of the real code and record
//! what it produced plus observations under a differently-cased spelling.

use dns_resolver::cache::SharedCache;
use dns_types::protocol::types::*;
use dns_types::zones::types::*;
use serde_json::{json, Value};
use std::collections::hash_map::DefaultHasher;
use std::hash::{Hash, Hasher};
use std::net::Ipv4Addr;

fn octs(v: &Value) -> Vec<u8> {
    v.as_array().expect("octets").iter().map(|x| x.as_u64().unwrap() as u8).collect()
}

fn flip(b: &[u8]) -> Vec<u8> {
    b.iter()
        .map(|&c| {
            if c.is_ascii_uppercase() {
                c.to_ascii_lowercase()
            } else if c.is_ascii_lowercase() {
                c.to_ascii_uppercase()
            } else {
                c
            }
        })
        .collect()
}

fn labels_json(n: &DomainName) -> Value {
    Value::Array(n.labels.iter().map(|l| Value::Array(l.octets().iter().map(|b| json!(*b)).collect())).collect())
}

fn from_label_octets(labels: &[Vec<u8>]) -> Option<DomainName> {
    let mut ls = Vec::new();
    for l in labels {
        if l.is_empty() {
            ls.push(Label::new());
        } else {
            ls.push(Label::try_from(&l[..]).ok()?);
        }
    }
    DomainName::from_labels(ls)
}

fn hash_of(n: &DomainName) -> u64 {
    let mut h = DefaultHasher::new();
    n.hash(&mut h);
    h.finish()
}

fn observe(n: &DomainName, other: Option<DomainName>) -> Value {
    let dotted_string = n.to_dotted_string();
    let dotted: Vec<Value> = dotted_string.chars().map(|c| json!((c as u32) as u8)).collect();
    let reparse = match DomainName::from_dotted_string(&dotted_string) {
        Some(r) => json!({"ok": true, "labels": labels_json(&r)}),
        None => json!({"ok": false, "labels": []}),
    };
    let case = match other {
        Some(o) => {
            let mut zones = Zones::new();
            zones.insert(Zone::new(n.clone(), None));
            let cache = SharedCache::new();
            cache.insert(&ResourceRecord {
                name: n.clone(),
                rtype_with_data: RecordTypeWithData::A { address: Ipv4Addr::new(10, 0, 0, 1) },
                rclass: RecordClass::IN,
                ttl: 300,
            });
            json!({
                "eq": *n == o,
                "hash_eq": hash_of(n) == hash_of(&o),
                "zone_hit": zones.get(&o).map(|z| z.get_apex() == n).unwrap_or(false),
                "cache_hit": cache.get(&o, QueryType::Record(RecordType::A)).len() == 1,
                "subdomain_both_ways": n.is_subdomain_of(&o) && o.is_subdomain_of(n),
            })
        }
        None => json!({"eq": false, "hash_eq": false, "zone_hit": false, "cache_hit": false, "subdomain_both_ways": false}),
    };
    json!({"ok": true, "labels": labels_json(n), "len": n.len, "dotted": dotted, "reparse": reparse, "case": case})
}

fn rejected() -> Value {
    json!({"ok": false})
}

pub fn names(inp: &str, out: &str) {
    crate::for_each_line(inp, out, |v| {
        let mut o = v.clone();
        let res = match v["op"].as_str().unwrap() {
            "from_labels" => {
                let labels: Vec<Vec<u8>> = v["labels"].as_array().unwrap().iter().map(octs).collect();
                let flipped: Vec<Vec<u8>> = labels.iter().map(|l| flip(l)).collect();
                match from_label_octets(&labels) {
                    Some(n) => observe(&n, from_label_octets(&flipped)),
                    None => rejected(),
                }
            }
            "from_dotted" => {
                let s = String::from_utf8(octs(&v["s"])).expect("utf8");
                let f = String::from_utf8(flip(s.as_bytes())).expect("utf8");
                match DomainName::from_dotted_string(&s) {
                    Some(n) => observe(&n, DomainName::from_dotted_string(&f)),
                    None => rejected(),
                }
            }
            "from_relative" => {
                let origin_labels: Vec<Vec<u8>> = v["origin"].as_array().unwrap().iter().map(octs).collect();
                let origin = from_label_octets(&origin_labels).expect("origin");
                let s = String::from_utf8(octs(&v["s"])).expect("utf8");
                let f = String::from_utf8(flip(s.as_bytes())).expect("utf8");
                match DomainName::from_relative_dotted_string(&origin, &s) {
                    Some(n) => observe(&n, DomainName::from_relative_dotted_string(&origin, &f)),
                    None => rejected(),
                }
            }
            "make_subdomain" => {
                let a: Vec<Vec<u8>> = v["a"].as_array().unwrap().iter().map(octs).collect();
                let b: Vec<Vec<u8>> = v["b"].as_array().unwrap().iter().map(octs).collect();
                let na = from_label_octets(&a).expect("a");
                let nb = from_label_octets(&b).expect("b");
                let fa = from_label_octets(&a.iter().map(|l| flip(l)).collect::<Vec<_>>()).expect("fa");
                match na.make_subdomain_of(&nb) {
                    Some(n) => observe(&n, fa.make_subdomain_of(&nb)),
                    None => rejected(),
                }
            }
            "is_subdomain" => {
                let a: Vec<Vec<u8>> = v["a"].as_array().unwrap().iter().map(octs).collect();
                let b: Vec<Vec<u8>> = v["b"].as_array().unwrap().iter().map(octs).collect();
                let na = from_label_octets(&a).expect("a");
                let nb = from_label_octets(&b).expect("b");
                json!(na.is_subdomain_of(&nb))
            }
            other => panic!("unknown op {other}"),
        };
        o["out"] = res;
        o
    });
}
