//! Zone files (C11, C13, C17): parse text with the real parser and dump the zone in the
//! octet-level notation of specs/ZoneText.tla; serialise, re-parse, serialise again.
//! A zone can also be built through the insertion API from an octet-level description.

use bytes::Bytes;
use dns_types::protocol::types::*;
use dns_types::zones::types::*;
use serde_json::{json, Value};
use std::net::{Ipv4Addr, Ipv6Addr};
use std::str::FromStr;

fn labels_json(n: &DomainName) -> Value {
    Value::Array(n.labels.iter().map(|l| Value::Array(l.octets().iter().map(|b| json!(*b)).collect())).collect())
}

fn json_labels(v: &Value) -> Option<DomainName> {
    let mut ls = Vec::new();
    for l in v.as_array()? {
        let o: Vec<u8> = l.as_array()?.iter().map(|x| x.as_u64().unwrap() as u8).collect();
        if o.is_empty() {
            ls.push(Label::new());
        } else {
            ls.push(Label::try_from(&o[..]).ok()?);
        }
    }
    DomainName::from_labels(ls)
}

fn raw(b: &[u8]) -> Value {
    Value::Array(b.iter().map(|x| json!(*x)).collect())
}

fn rdata_json(d: &RecordTypeWithData) -> (Vec<Value>, Vec<Value>, Value, String) {
    use RecordTypeWithData::*;
    let none: Vec<Value> = Vec::new();
    match d {
        A { address } => (vec![], vec![], json!(none), format!("{address}")),
        AAAA { address } => (vec![], vec![], json!(none), format!("{address}")),
        NS { nsdname: n } | MD { madname: n } | MF { madname: n } | CNAME { cname: n } | MB { madname: n }
        | MG { mdmname: n } | MR { newname: n } | PTR { ptrdname: n } => (vec![labels_json(n)], vec![], json!(none), String::new()),
        SOA { mname, rname, serial, refresh, retry, expire, minimum } => (
            vec![labels_json(mname), labels_json(rname)],
            [serial, refresh, retry, expire, minimum].iter().map(|x| json!(x.to_string())).collect(),
            json!(none),
            String::new(),
        ),
        MINFO { rmailbx, emailbx } => (vec![labels_json(rmailbx), labels_json(emailbx)], vec![], json!(none), String::new()),
        MX { preference, exchange } => (vec![labels_json(exchange)], vec![json!(preference.to_string())], json!(none), String::new()),
        SRV { priority, weight, port, target } => (
            vec![labels_json(target)],
            vec![json!(priority.to_string()), json!(weight.to_string()), json!(port.to_string())],
            json!(none),
            String::new(),
        ),
        NULL { octets } | WKS { octets } | HINFO { octets } | TXT { octets } => (vec![], vec![], raw(octets), String::new()),
        Unknown { octets, .. } => (vec![], vec![], raw(octets), String::new()),
    }
}

pub fn zone_dump(z: &Zone) -> Value {
    let mut recs = Vec::new();
    let mut push = |name: &DomainName, zr: &ZoneRecord, wild: bool| {
        if zr.rtype_with_data.rtype() == RecordType::SOA {
            return;
        }
        let (names, nums, rawv, addr) = rdata_json(&zr.rtype_with_data);
        recs.push(json!({"name": labels_json(name), "wild": wild, "type": format!("{}", zr.rtype_with_data.rtype()),
            "ttl": zr.ttl.to_string(), "names": names, "nums": nums, "raw": rawv, "addr": addr}));
    };
    let mut soa_records = 0;
    for (name, zrs) in z.all_records() {
        for zr in zrs {
            if zr.rtype_with_data.rtype() == RecordType::SOA {
                soa_records += 1;
            }
            push(name, zr, false);
        }
    }
    for (name, zrs) in z.all_wildcard_records() {
        for zr in zrs {
            push(name, zr, true);
        }
    }
    recs.sort_by_key(|x| x.to_string());
    let soa = match z.get_soa() {
        Some(s) => {
            let (names, nums, _, _) = rdata_json(&s.to_rdata());
            json!({"names": names, "nums": nums})
        }
        None => json!({"names": [], "nums": []}),
    };
    json!({"ok": true, "apex": labels_json(z.get_apex()), "auth": z.is_authoritative(), "soa": soa,
           "soa_records": soa_records, "recs": recs})
}

fn failed() -> Value {
    json!({"ok": false, "apex": [], "auth": false, "soa": {"names": [], "nums": []}, "soa_records": 0, "recs": []})
}

fn text_of(v: &Value) -> String {
    v.as_array().expect("text").iter().map(|c| char::from_u32(c.as_u64().unwrap() as u32).expect("char")).collect()
}

fn text_json(s: &str) -> Value {
    Value::Array(s.chars().map(|c| json!(c as u32)).collect())
}

fn parse_dump(text: &str) -> (Value, Option<Zone>) {
    match Zone::deserialise(text) {
        Ok(z) => (zone_dump(&z), Some(z)),
        Err(_) => (failed(), None),
    }
}

fn json_rdata(r: &Value) -> Option<RecordTypeWithData> {
    use RecordTypeWithData::*;
    let t = RecordType::from_str(r["type"].as_str()?).ok()?;
    let nm = |i: usize| json_labels(&r["names"][i]);
    let num = |i: usize| -> Option<u32> { r["nums"][i].as_str()?.parse().ok() };
    let rawb: Vec<u8> = r["raw"].as_array()?.iter().map(|x| x.as_u64().unwrap() as u8).collect();
    Some(match t {
        RecordType::A => A { address: Ipv4Addr::from_str(r["addr"].as_str()?).ok()? },
        RecordType::AAAA => AAAA { address: Ipv6Addr::from_str(r["addr"].as_str()?).ok()? },
        RecordType::NS => NS { nsdname: nm(0)? },
        RecordType::MD => MD { madname: nm(0)? },
        RecordType::MF => MF { madname: nm(0)? },
        RecordType::CNAME => CNAME { cname: nm(0)? },
        RecordType::MB => MB { madname: nm(0)? },
        RecordType::MG => MG { mdmname: nm(0)? },
        RecordType::MR => MR { newname: nm(0)? },
        RecordType::PTR => PTR { ptrdname: nm(0)? },
        RecordType::MINFO => MINFO { rmailbx: nm(0)?, emailbx: nm(1)? },
        RecordType::MX => MX { preference: num(0)? as u16, exchange: nm(0)? },
        RecordType::SRV => SRV { priority: num(0)? as u16, weight: num(1)? as u16, port: num(2)? as u16, target: nm(0)? },
        RecordType::NULL => NULL { octets: Bytes::from(rawb) },
        RecordType::WKS => WKS { octets: Bytes::from(rawb) },
        RecordType::HINFO => HINFO { octets: Bytes::from(rawb) },
        RecordType::TXT => TXT { octets: Bytes::from(rawb) },
        _ => return None,
    })
}

/// {apex, auth, soa:{names,nums}, recs:[..]} -> Zone through Zone::new / insert / insert_wildcard
fn build_zone(v: &Value) -> Option<Zone> {
    let apex = json_labels(&v["apex"])?;
    let soa = if v["auth"].as_bool()? {
        let n = |i: usize| -> Option<u32> { v["soa"]["nums"][i].as_str()?.parse().ok() };
        Some(SOA {
            mname: json_labels(&v["soa"]["names"][0])?,
            rname: json_labels(&v["soa"]["names"][1])?,
            serial: n(0)?, refresh: n(1)?, retry: n(2)?, expire: n(3)?, minimum: n(4)?,
        })
    } else {
        None
    };
    let mut z = Zone::new(apex, soa);
    for r in v["recs"].as_array()? {
        let name = json_labels(&r["name"])?;
        let d = json_rdata(r)?;
        let ttl: u32 = r["ttl"].as_str()?.parse().ok()?;
        if r["wild"].as_bool()? {
            z.insert_wildcard(&name, d, ttl);
        } else {
            z.insert(&name, d, ttl);
        }
    }
    Some(z)
}

fn round_trip(z: &Zone) -> Value {
    let ser = z.serialise();
    let (reparse, z2) = parse_dump(&ser);
    let (ser2, reparse2) = match &z2 {
        Some(z2) => {
            let s2 = z2.serialise();
            let (d2, _) = parse_dump(&s2);
            (text_json(&s2), d2)
        }
        None => (json!([]), failed()),
    };
    json!({"present": true, "ser": text_json(&ser), "reparse": reparse, "equal": z2.as_ref() == Some(z),
           "ser2": ser2, "reparse2": reparse2})
}

/// in: {"text":[cps], "lits":[..], ...}  or  {"zone":{..}, "lits":[..], ...}
pub fn zone_text(inp: &str, out: &str) {
    crate::for_each_line(inp, out, |v| {
        let mut o = v.clone();
        o["ev"] = json!("zone_text");
        if v.get("zone").is_some() {
            let z = build_zone(&v["zone"]).expect("zone description");
            o["out"] = zone_dump(&z);
            o["rt"] = round_trip(&z);
        } else {
            let text = text_of(&v["text"]);
            let (dump, z) = parse_dump(&text);
            o["out"] = dump;
            o["rt"] = match &z {
                Some(z) => round_trip(z),
                None => json!({"present": false}),
            };
        }
        o
    });
}

/// crash detection at scale (C17): in: {"text":[cps]} or {"repeat":{"unit":[cps],"times":n,"prefix":[cps],"suffix":[cps]}};
/// out: verdicts only.  Runs on a thread with the stack of a tokio worker (2 MiB), where a reload parses files.
pub fn parse_only(inp: &str, out: &str) {
    crate::wirecmd::run_on_worker_stack(inp.to_string(), out.to_string(), |v| {
        let text = if v.get("repeat").is_some() {
            let r = &v["repeat"];
            let mut t = text_of(&r["prefix"]);
            let unit = text_of(&r["unit"]);
            for _ in 0..r["times"].as_u64().unwrap() {
                t.push_str(&unit);
            }
            t.push_str(&text_of(&r["suffix"]));
            t
        } else {
            text_of(&v["text"])
        };
        let z = Zone::deserialise(&text).is_ok();
        let h = dns_types::hosts::types::Hosts::deserialise(&text).is_ok();
        json!({"ev": "parse_only", "zone_ok": z, "hosts_ok": h, "chars": text.chars().count()})
    });
}
