//! Hosts files (C14): parse text with the real parser, then serialise, re-parse,
//! convert to a zone and back, and look every name up in that zone.

use dns_types::hosts::types::Hosts;
use dns_types::protocol::types::*;
use dns_types::zones::types::*;
use serde_json::{json, Value};

fn labels_json(n: &DomainName) -> Value {
    Value::Array(n.labels.iter().map(|l| Value::Array(l.octets().iter().map(|b| json!(*b)).collect())).collect())
}

fn hosts_json(h: &Hosts) -> Value {
    let mut v = Vec::new();
    for (n, a) in &h.v4 {
        v.push(json!({"name": labels_json(n), "v": 4, "addr": format!("{a}")}));
    }
    for (n, a) in &h.v6 {
        v.push(json!({"name": labels_json(n), "v": 6, "addr": format!("{a}")}));
    }
    v.sort_by_key(|x| x.to_string());
    Value::Array(v)
}

fn text_of(v: &Value) -> String {
    v.as_array().expect("text").iter().map(|c| char::from_u32(c.as_u64().unwrap() as u32).expect("char")).collect()
}

fn text_json(s: &str) -> Value {
    Value::Array(s.chars().map(|c| json!(c as u32)).collect())
}

fn zone_recs_json(z: &Zone) -> Value {
    let mut recs = Vec::new();
    let mut push = |name: &DomainName, zr: &ZoneRecord, wild: bool| {
        let (t, addr) = match &zr.rtype_with_data {
            RecordTypeWithData::A { address } => ("A".to_string(), format!("{address}")),
            RecordTypeWithData::AAAA { address } => ("AAAA".to_string(), format!("{address}")),
            other => (format!("{}", other.rtype()), String::new()),
        };
        recs.push(json!({"name": labels_json(name), "type": t, "addr": addr, "ttl": zr.ttl, "wild": wild}));
    };
    for (name, zrs) in z.all_records() {
        for zr in zrs {
            push(name, zr, false);
        }
    }
    for (name, zrs) in z.all_wildcard_records() {
        for zr in zrs {
            push(name, zr, true);
        }
    }
    recs.sort_by_key(|x| x.to_string());
    Value::Array(recs)
}

fn parse_json(text: &str) -> (Value, Option<Hosts>) {
    match Hosts::deserialise(text) {
        Ok(h) => (json!({"ok": true, "hosts": hosts_json(&h)}), Some(h)),
        Err(_) => (json!({"ok": false, "hosts": []}), None),
    }
}

pub fn hosts(inp: &str, out: &str) {
    crate::for_each_line(inp, out, |v| {
        let text = text_of(&v["text"]);
        let (parse, h) = parse_json(&text);
        let mut o = json!({"ev": "hosts", "text": v["text"], "lits": v["lits"], "parse": parse, "conv": {"present": false}});
        if let Some(h) = h {
            let ser = h.serialise();
            let (reparse, _) = parse_json(&ser);
            let zone = Zone::from(h.clone());
            let back = match Hosts::try_from(zone.clone()) {
                Ok(b) => json!({"ok": true, "hosts": hosts_json(&b)}),
                Err(_) => json!({"ok": false, "hosts": []}),
            };
            let lossy = hosts_json(&Hosts::from_zone_lossy(&zone));
            let mut lookups = Vec::new();
            let mut look = |n: &DomainName, t: RecordType, tname: &str| {
                let r = zone.resolve(n, QueryType::Record(t));
                let (kind, rrs) = match r {
                    Some(ZoneResult::Answer { rrs }) => ("answer", rrs),
                    Some(ZoneResult::CNAME { .. }) => ("cname", vec![]),
                    Some(ZoneResult::Delegation { .. }) => ("delegation", vec![]),
                    Some(ZoneResult::NameError) => ("nameerror", vec![]),
                    None => ("none", vec![]),
                };
                let addrs: Vec<Value> = rrs.iter().map(|rr| match &rr.rtype_with_data {
                    RecordTypeWithData::A { address } => json!(format!("{address}")),
                    RecordTypeWithData::AAAA { address } => json!(format!("{address}")),
                    _ => json!("?"),
                }).collect();
                lookups.push(json!({"name": labels_json(n), "type": tname, "kind": kind, "addrs": addrs}));
            };
            for n in h.v4.keys() {
                look(n, RecordType::A, "A");
            }
            for n in h.v6.keys() {
                look(n, RecordType::AAAA, "AAAA");
            }
            lookups.sort_by_key(|x| x.to_string());
            o["conv"] = json!({
                "present": true,
                "ser": text_json(&ser), "reparse": reparse,
                "zone": {"apex": labels_json(zone.get_apex()), "auth": zone.is_authoritative(), "recs": zone_recs_json(&zone)},
                "back": back, "lossy": lossy, "lookups": lookups,
            });
        }
        o
    });
}
