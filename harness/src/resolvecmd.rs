//! Resolver commands: run the real `dns_resolver::resolve` (all three modes) against a
//! scripted upstream (hook H3) under tokio's paused clock, and the upstream-reply filter
//! (hook H5).  The replies are looked up in a table supplied with the scenario (computed by
//! the specification); this file contains no DNS semantics.

use crate::j::*;
use dns_resolver::cache::SharedCache;
use dns_resolver::recursive::NameserverResponse;
use dns_resolver::util::types::{ProtocolMode, ResolutionError, ResolvedRecord};
use dns_resolver::verif;
use dns_types::protocol::types::*;
use dns_types::zones::types::*;
use serde_json::{json, Value};
use std::net::SocketAddr;
use std::str::FromStr;
use std::sync::{Arc, Mutex};
use std::time::Duration;

fn rcode_of(n: u64) -> Rcode {
    Rcode::from(n as u8)
}

/// reply description -> message answering `request`
fn build_reply(request: &Message, r: &Value) -> Message {
    let rrs = |k: &str| -> Vec<ResourceRecord> {
        r[k].as_array().map(|a| a.iter().map(|x| json_to_rr(x).expect("rr")).collect()).unwrap_or_default()
    };
    let mut m = Message {
        header: Header {
            id: request.header.id ^ (r["id_xor"].as_u64().unwrap_or(0) as u16),
            is_response: r["qr"].as_bool().unwrap_or(true),
            opcode: Opcode::from(r["opcode"].as_u64().unwrap_or(0) as u8),
            is_authoritative: r["aa"].as_bool().unwrap_or(false),
            is_truncated: r["tc"].as_bool().unwrap_or(false),
            recursion_desired: request.header.recursion_desired,
            recursion_available: r["ra"].as_bool().unwrap_or(false),
            rcode: rcode_of(r["rcode"].as_u64().unwrap_or(0)),
        },
        questions: request.questions.clone(),
        answers: rrs("answers"),
        authority: rrs("authority"),
        additional: rrs("additional"),
    };
    if let Some(q) = r.get("question") {
        if q.is_object() {
            m.questions = vec![json_to_question(q).expect("question")];
        } else if q.is_null() {
            // keep
        } else if q == "none" {
            m.questions = Vec::new();
        }
    }
    m
}

pub fn resolved_to_json(r: &Result<ResolvedRecord, ResolutionError>) -> Value {
    let none = json!({"name": [], "type": "NONE", "data": "", "target": [], "ttl": 0});
    match r {
        Ok(ResolvedRecord::Authoritative { rrs, soa_rr }) => {
            json!({"kind": "Authoritative", "rrs": rrs_to_json(rrs), "soa": rr_to_json(soa_rr), "has_soa": true, "err": ""})
        }
        Ok(ResolvedRecord::AuthoritativeNameError { soa_rr }) => {
            json!({"kind": "NameError", "rrs": [], "soa": rr_to_json(soa_rr), "has_soa": true, "err": ""})
        }
        Ok(ResolvedRecord::NonAuthoritative { rrs, soa_rr }) => json!({
            "kind": "NonAuthoritative", "rrs": rrs_to_json(rrs),
            "soa": soa_rr.as_ref().map(rr_to_json).unwrap_or(none), "has_soa": soa_rr.is_some(), "err": ""}),
        Err(e) => {
            let name = match e {
                ResolutionError::Timeout => "Timeout",
                ResolutionError::RecursionLimit => "RecursionLimit",
                ResolutionError::DuplicateQuestion { .. } => "DuplicateQuestion",
                ResolutionError::DeadEnd { .. } => "DeadEnd",
                ResolutionError::LocalDelegationMissingNS { .. } => "LocalDelegationMissingNS",
                ResolutionError::CacheTypeMismatch { .. } => "CacheTypeMismatch",
            };
            json!({"kind": "Err", "rrs": [], "soa": none, "has_soa": false, "err": name})
        }
    }
}

struct Script {
    /// (addr "ip", qname json string, qtype) -> reply description
    table: Vec<Value>,
    default: Value,
    faults: Value,
    log: Vec<Value>,
    events: Vec<Value>,
    counter: usize,
    t0: tokio::time::Instant,
}

fn lookup<'a>(s: &'a Script, addr: &str, q: &Question) -> &'a Value {
    let qn = name_to_json(&q.name);
    let qt = qtype_to_string(q.qtype);
    for e in &s.table {
        if e["addr"] == addr && e["qname"] == qn && e["qtype"] == qt.as_str() {
            return &e["reply"];
        }
    }
    &s.default
}

/// in: one scenario per line (see DESIGN appendix C); out: the scenario with a `runs` array
pub fn resolve(inp: &str, out: &str) {
    crate::for_each_line(inp, out, |v| {
        let rt = tokio::runtime::Builder::new_current_thread().enable_all().start_paused(true).build().expect("rt");
        let mut zones = Zones::new();
        for zj in v["zones"].as_array().unwrap() {
            zones.insert_merge(json_to_zone(zj).expect("zone"));
        }
        let cache = SharedCache::with_desired_size(v["cache_size"].as_u64().unwrap_or(512) as usize);
        verif::set_clock_ms(0);
        for rr in v["cache"].as_array().unwrap() {
            cache.insert(&json_to_rr(rr).expect("cache rr"));
        }
        let mode = v["mode"].as_str().unwrap();
        let protocol = ProtocolMode::from_str(v["protocol"].as_str().unwrap_or("only-v4")).expect("protocol");
        let port = v["port"].as_u64().unwrap_or(53) as u16;
        let forwarder: Option<SocketAddr> = if mode == "forwarding" {
            Some(SocketAddr::from_str(v["forwarder"].as_str().unwrap()).expect("forwarder"))
        } else {
            None
        };
        let mut runs = Vec::new();
        rt.block_on(async {
            let t_base = tokio::time::Instant::now();
            for qv in v["questions"].as_array().unwrap() {
                let q = json_to_question(qv).expect("question");
                // virtual time passing before this question (cache expiry between the questions of a sequence)
                if let Some(ms) = qv["advance_ms"].as_u64() {
                    tokio::time::advance(Duration::from_millis(ms)).await;
                }
                let script = Arc::new(Mutex::new(Script {
                    table: v["table"].as_array().cloned().unwrap_or_default(),
                    default: v["default"].clone(),
                    faults: qv["faults"].clone(),
                    log: Vec::new(),
                    events: Vec::new(),
                    counter: 0,
                    t0: t_base,
                }));
                let s2 = script.clone();
                verif::set_transport(Some(Arc::new(move |tcp, addr: SocketAddr, request: Vec<u8>| {
                    let s3 = s2.clone();
                    Box::pin(async move {
                        let req = Message::from_octets(&request);
                        let (reply_desc, fault, idx, now) = {
                            let mut s = s3.lock().unwrap();
                            let idx = s.counter;
                            s.counter += 1;
                            let now = s.t0.elapsed().as_millis() as u64;
                            verif::set_clock_ms(now);
                            // cache operations so far (H2): the exchange is numbered relative to them
                            for e in &verif::take_events() {
                                s.events.push(crate::cachecmd::event_to_json(e));
                            }
                            verif::start_recording();
                            let cache_seq = s.events.len();
                            let desc = match &req {
                                Ok(m) if m.questions.len() == 1 => lookup(&s, &addr.ip().to_string(), &m.questions[0]).clone(),
                                _ => s.default.clone(),
                            };
                            let fault = s.faults[idx.to_string().as_str()].clone();
                            let (qn, qt, rd, id) = match &req {
                                Ok(m) if m.questions.len() == 1 => (
                                    name_to_json(&m.questions[0].name),
                                    qtype_to_string(m.questions[0].qtype),
                                    m.header.recursion_desired,
                                    m.header.id,
                                ),
                                _ => (json!([]), "?".to_string(), false, 0),
                            };
                            s.log.push(json!({"n": idx, "t": now, "tcp": tcp, "addr": addr.ip().to_string(),
                                "v": if addr.is_ipv4() { 4 } else { 6 }, "port": addr.port(),
                                "qname": qn, "qtype": qt, "rd": rd, "id": id, "reqlen": request.len(), "cache_seq": cache_seq,
                                "fault": fault, "reply": desc}));
                            (desc, fault, idx, now)
                        };
                        let _ = (idx, now);
                        // faults decided by the scenario for this exchange
                        let kind = fault["kind"].as_str().unwrap_or("");
                        let delay = fault["delay_ms"].as_u64().unwrap_or(0);
                        if delay > 0 {
                            tokio::time::sleep(Duration::from_millis(delay)).await;
                        }
                        if kind == "drop" || reply_desc == "drop" {
                            tokio::time::sleep(Duration::from_secs(100_000)).await;
                            return None;
                        }
                        if kind == "error" || reply_desc == "error" {
                            return None;
                        }
                        if kind == "garbage" {
                            return Some(fault["bytes"].as_array().map(|a| a.iter().map(|x| x.as_u64().unwrap() as u8).collect()).unwrap_or_else(|| vec![1, 2, 3]));
                        }
                        let request = match req {
                            Ok(m) => m,
                            Err(_) => return None,
                        };
                        let mut desc = if fault.get("reply").is_some() { fault["reply"].clone() } else { reply_desc };
                        if !desc.is_object() {
                            return None;
                        }
                        match kind {
                            "wrong_id" => desc["id_xor"] = json!(1),
                            "tc" => desc["tc"] = json!(true),
                            "rcode" => desc["rcode"] = fault["rcode"].clone(),
                            "not_response" => desc["qr"] = json!(false),
                            "opcode" => desc["opcode"] = json!(2),
                            "no_question" => desc["question"] = json!("none"),
                            "other_question" => desc["question"] = fault["question"].clone(),
                            _ => (),
                        }
                        // a UDP reply that would not fit is marked truncated by the (model) server: TC set, records dropped
                        let msg = build_reply(&request, &desc);
                        let mut bytes = match msg.to_octets() {
                            Ok(b) => b.to_vec(),
                            Err(_) => return None,
                        };
                        if !tcp && bytes.len() > 512 {
                            let mut cut = msg.clone();
                            cut.header.is_truncated = true;
                            cut.answers.clear();
                            cut.authority.clear();
                            cut.additional.clear();
                            bytes = cut.to_octets().map(|b| b.to_vec()).unwrap_or_default();
                        }
                        if kind == "truncate_bytes" {
                            let n = fault["keep"].as_u64().unwrap_or(10) as usize;
                            bytes.truncate(n.min(bytes.len()));
                        }
                        Some(bytes)
                    })
                })));
                verif::start_recording();
                let t0 = t_base.elapsed().as_millis() as u64;
                verif::set_clock_ms(t0);
                let zones_ref = &zones;
                let cache_ref = &cache;
                let qref = &q;
                // the resolution runs as its own task so that a panic is data
                let res = std::panic::AssertUnwindSafe(dns_resolver::resolve(
                    mode != "auth", protocol, port, forwarder, zones_ref, cache_ref, qref));
                let res = futures_catch(res).await;
                let t1 = t_base.elapsed().as_millis() as u64;
                verif::set_clock_ms(t1);
                verif::set_transport(None);
                let mut events: Vec<Value> = script.lock().unwrap().events.clone();
                events.extend(verif::take_events().iter().map(crate::cachecmd::event_to_json));
                let log = script.lock().unwrap().log.clone();
                let result = match res {
                    Some((_metrics, r)) => resolved_to_json(&r),
                    None => json!({"kind": "Panic", "rrs": [], "soa": {}, "has_soa": false, "err": "panic"}),
                };
                runs.push(json!({"q": {"name": qv["name"], "type": qv["type"]}, "result": result, "t0": t0, "t1": t1,
                                 "exchanges": log, "cache_events": events}));
                // time between questions (shared cache ages)
                if let Some(ms) = qv["then_wait_ms"].as_u64() {
                    tokio::time::sleep(Duration::from_millis(ms)).await;
                }
            }
        });
        let mut o = v.clone();
        o["ev"] = json!("resolve");
        o["runs"] = Value::Array(runs);
        o
    });
}

/// poll a future, turning a panic inside it into None
async fn futures_catch<F: std::future::Future>(f: std::panic::AssertUnwindSafe<F>) -> Option<F::Output> {
    use std::future::Future;
    use std::pin::Pin;
    use std::task::{Context, Poll};
    struct Catch<F>(Pin<Box<F>>);
    impl<F: Future> Future for Catch<F> {
        type Output = Option<F::Output>;
        fn poll(mut self: Pin<&mut Self>, cx: &mut Context<'_>) -> Poll<Self::Output> {
            let inner = &mut self.0;
            match std::panic::catch_unwind(std::panic::AssertUnwindSafe(|| inner.as_mut().poll(cx))) {
                Ok(Poll::Ready(x)) => Poll::Ready(Some(x)),
                Ok(Poll::Pending) => Poll::Pending,
                Err(_) => Poll::Ready(None),
            }
        }
    }
    Catch(Box::pin(f.0)).await
}

fn nsr_to_json(r: &Option<NameserverResponse>) -> Value {
    let none = json!({"name": [], "type": "NONE", "data": "", "target": [], "ttl": 0});
    match r {
        None => json!({"kind": "none", "rrs": [], "soa": none, "has_soa": false, "cname": [], "dname": [], "hosts": []}),
        Some(NameserverResponse::Answer { rrs, soa_rr }) => json!({
            "kind": "answer", "rrs": rrs_to_json(rrs), "soa": soa_rr.as_ref().map(rr_to_json).unwrap_or(none),
            "has_soa": soa_rr.is_some(), "cname": [], "dname": [], "hosts": []}),
        Some(NameserverResponse::CNAME { rrs, cname }) => json!({
            "kind": "cname", "rrs": rrs_to_json(rrs), "soa": none, "has_soa": false, "cname": name_to_json(cname),
            "dname": [], "hosts": []}),
        Some(NameserverResponse::Delegation { rrs, delegation }) => {
            let mut hosts: Vec<Value> = delegation.hostnames.iter().map(name_to_json).collect();
            hosts.sort_by_key(|x| x.to_string());
            json!({"kind": "delegation", "rrs": rrs_to_json(rrs), "soa": none, "has_soa": false, "cname": [],
                   "dname": name_to_json(&delegation.name), "hosts": hosts})
        }
    }
}

/// in: {"q":{name,type}, "mc": n, "reply": {rcode, answers, authority, additional}}
/// out: + "out": what validate_nameserver_response kept
pub fn validate(inp: &str, out: &str) {
    crate::for_each_line(inp, out, |v| {
        let q = json_to_question(&v["q"]).expect("q");
        let request = Message::from_question(4660, q.clone());
        let msg = build_reply(&request, &v["reply"]);
        let mc = v["mc"].as_u64().unwrap() as usize;
        let r = dns_resolver::recursive::verif_validate_nameserver_response(&q, &msg, mc);
        let mut o = v.clone();
        o["ev"] = json!("validate");
        o["out"] = nsr_to_json(&r);
        o
    });
}
