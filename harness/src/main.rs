//! vh - the verification harness for barrucadu/resolved.
//!
//! A dumb pipe between TLC and the real code: every sub-command reads ndjson
//! cases (produced by TLC or by a semantics-free generator), runs the real
//! code on them and writes ndjson observations that TLC then validates
//! against the TLA+ specification.

mod cachecmd;
mod hostscmd;
mod j;
mod mergecmd;
mod namescmd;
mod resolvecmd;
mod wirecmd;
mod zonecmd;
mod zonetextcmd;

use serde_json::{json, Value};
use std::io::{BufRead, BufReader, BufWriter, Write};
use std::panic::{catch_unwind, AssertUnwindSafe};

pub fn for_each_line<F>(inp: &str, out: &str, mut f: F)
where
    F: FnMut(&Value) -> Value,
{
    let rd = BufReader::new(std::fs::File::open(inp).expect("open input"));
    let mut wr = BufWriter::new(std::fs::File::create(out).expect("create output"));
    for line in rd.lines() {
        let line = line.expect("read line");
        if line.trim().is_empty() {
            continue;
        }
        let v: Value = serde_json::from_str(&line).expect("parse json line");
        let res = match catch_unwind(AssertUnwindSafe(|| f(&v))) {
            Ok(r) => r,
            Err(e) => {
                let msg = if let Some(s) = e.downcast_ref::<&str>() {
                    (*s).to_string()
                } else if let Some(s) = e.downcast_ref::<String>() {
                    s.clone()
                } else {
                    "panic".to_string()
                };
                json!({"ev": "panic", "in": v, "msg": msg})
            }
        };
        writeln!(wr, "{res}").expect("write");
        // a hang or crash of the code under test must leave the earlier results on disk
        wr.flush().expect("flush");
    }
    wr.flush().expect("flush");
}

fn main() {
    let args: Vec<String> = std::env::args().collect();
    if args.len() < 2 {
        eprintln!("usage: vh <command> ...");
        std::process::exit(2);
    }
    // panics in code under test are data; keep the default hook quiet
    std::panic::set_hook(Box::new(|_| {}));
    match args[1].as_str() {
        "cache-run" => cachecmd::cache_run(&args[2], &args[3]),
        "cache-threads" => cachecmd::cache_threads(&args[2], &args[3]),
        "wire-decode" => wirecmd::wire_decode(&args[2], &args[3]),
        "wire-roundtrip" => wirecmd::wire_roundtrip(&args[2], &args[3]),
        "wire-encode" => wirecmd::wire_encode(&args[2], &args[3]),
        "hosts" => hostscmd::hosts(&args[2], &args[3]),
        "names" => namescmd::names(&args[2], &args[3]),
        "zone-text" => zonetextcmd::zone_text(&args[2], &args[3]),
        "parse-only" => zonetextcmd::parse_only(&args[2], &args[3]),
        "zone-merge" => mergecmd::zone_merge(&args[2], &args[3]),
        "resolve" => resolvecmd::resolve(&args[2], &args[3]),
        "validate" => resolvecmd::validate(&args[2], &args[3]),
        "zone-resolve" => zonecmd::zone_resolve(&args[2], &args[3]),
        other => {
            eprintln!("unknown command {other}");
            std::process::exit(2);
        }
    }
}
