//! Wire-format commands: run the real decoder / encoder and report what they
//! did in the octet-level JSON notation of specs/Wire.tla.

use bytes::Bytes;
use dns_types::protocol::deserialise::Error as DeErr;
use dns_types::protocol::types::*;
use serde_json::{json, Value};
use std::io::{BufRead, BufReader, BufWriter, Write};
use std::net::{Ipv4Addr, Ipv6Addr};

pub fn name_to_octets_json(n: &DomainName) -> Value {
    Value::Array(
        n.labels
            .iter()
            .filter(|l| !l.is_empty())
            .map(|l| Value::Array(l.octets().iter().map(|b| json!(*b)).collect()))
            .collect(),
    )
}

pub fn octets_json_to_name(v: &Value) -> Option<DomainName> {
    let mut labels = Vec::new();
    for l in v.as_array()? {
        let octs: Vec<u8> = l.as_array()?.iter().map(|x| x.as_u64().unwrap() as u8).collect();
        labels.push(Label::try_from(&octs[..]).ok()?);
    }
    labels.push(Label::new());
    DomainName::from_labels(labels)
}

fn u32_pair(x: u32) -> Value {
    json!([x >> 16, x & 0xffff])
}

fn pair_u32(v: &Value) -> u32 {
    ((v[0].as_u64().unwrap() as u32) << 16) | (v[1].as_u64().unwrap() as u32)
}

fn raw(b: &[u8]) -> Value {
    Value::Array(b.iter().map(|x| json!(*x)).collect())
}

fn rr_to_wire_json(rr: &ResourceRecord) -> Value {
    use RecordTypeWithData::*;
    let none: Vec<Value> = Vec::new();
    let (names, ints, rawv): (Vec<Value>, Vec<Value>, Value) = match &rr.rtype_with_data {
        A { address } => (vec![], vec![], raw(&address.octets())),
        AAAA { address } => (vec![], vec![], raw(&address.octets())),
        NS { nsdname: n } | MD { madname: n } | MF { madname: n } | CNAME { cname: n }
        | MB { madname: n } | MG { mdmname: n } | MR { newname: n } | PTR { ptrdname: n } => {
            (vec![name_to_octets_json(n)], vec![], json!(none))
        }
        SOA { mname, rname, serial, refresh, retry, expire, minimum } => {
            let mut ints = Vec::new();
            for x in [serial, refresh, retry, expire, minimum] {
                ints.push(json!(x >> 16));
                ints.push(json!(x & 0xffff));
            }
            (vec![name_to_octets_json(mname), name_to_octets_json(rname)], ints, json!(none))
        }
        MINFO { rmailbx, emailbx } => {
            (vec![name_to_octets_json(rmailbx), name_to_octets_json(emailbx)], vec![], json!(none))
        }
        MX { preference, exchange } => (vec![name_to_octets_json(exchange)], vec![json!(preference)], json!(none)),
        SRV { priority, weight, port, target } => {
            (vec![name_to_octets_json(target)], vec![json!(priority), json!(weight), json!(port)], json!(none))
        }
        NULL { octets } | WKS { octets } | HINFO { octets } | TXT { octets } => (vec![], vec![], raw(octets)),
        Unknown { octets, .. } => (vec![], vec![], raw(octets)),
    };
    json!({
        "name": name_to_octets_json(&rr.name),
        "type": u16::from(rr.rtype_with_data.rtype()),
        "class": u16::from(rr.rclass),
        "ttl": u32_pair(rr.ttl),
        "names": names, "ints": ints, "raw": rawv,
    })
}

fn wire_json_to_rr(v: &Value) -> Option<ResourceRecord> {
    use RecordTypeWithData::*;
    let t = RecordType::from(v["type"].as_u64()? as u16);
    let nm = |i: usize| octets_json_to_name(&v["names"][i]);
    let int = |i: usize| v["ints"][i].as_u64().map(|x| x as u16);
    let u32at = |i: usize| -> Option<u32> { Some((u32::from(int(i)?) << 16) | u32::from(int(i + 1)?)) };
    let rawb: Vec<u8> = v["raw"].as_array()?.iter().map(|x| x.as_u64().unwrap() as u8).collect();
    let d = match t {
        RecordType::A => A { address: Ipv4Addr::from(<[u8; 4]>::try_from(&rawb[..]).ok()?) },
        RecordType::AAAA => AAAA { address: Ipv6Addr::from(<[u8; 16]>::try_from(&rawb[..]).ok()?) },
        RecordType::NS => NS { nsdname: nm(0)? },
        RecordType::MD => MD { madname: nm(0)? },
        RecordType::MF => MF { madname: nm(0)? },
        RecordType::CNAME => CNAME { cname: nm(0)? },
        RecordType::MB => MB { madname: nm(0)? },
        RecordType::MG => MG { mdmname: nm(0)? },
        RecordType::MR => MR { newname: nm(0)? },
        RecordType::PTR => PTR { ptrdname: nm(0)? },
        RecordType::SOA => SOA {
            mname: nm(0)?, rname: nm(1)?,
            serial: u32at(0)?, refresh: u32at(2)?, retry: u32at(4)?, expire: u32at(6)?, minimum: u32at(8)?,
        },
        RecordType::MINFO => MINFO { rmailbx: nm(0)?, emailbx: nm(1)? },
        RecordType::MX => MX { preference: int(0)?, exchange: nm(0)? },
        RecordType::SRV => SRV { priority: int(0)?, weight: int(1)?, port: int(2)?, target: nm(0)? },
        RecordType::NULL => NULL { octets: Bytes::from(rawb) },
        RecordType::WKS => WKS { octets: Bytes::from(rawb) },
        RecordType::HINFO => HINFO { octets: Bytes::from(rawb) },
        RecordType::TXT => TXT { octets: Bytes::from(rawb) },
        RecordType::Unknown(tag) => Unknown { tag, octets: Bytes::from(rawb) },
    };
    Some(ResourceRecord {
        name: octets_json_to_name(&v["name"])?,
        rtype_with_data: d,
        rclass: RecordClass::from(v["class"].as_u64()? as u16),
        ttl: pair_u32(&v["ttl"]),
    })
}

pub fn msg_to_wire_json(m: &Message) -> Value {
    json!({
        "id": m.header.id, "qr": m.header.is_response, "opcode": u8::from(m.header.opcode),
        "aa": m.header.is_authoritative, "tc": m.header.is_truncated, "rd": m.header.recursion_desired,
        "ra": m.header.recursion_available, "rcode": u8::from(m.header.rcode),
        "questions": m.questions.iter().map(|q| json!({
            "name": name_to_octets_json(&q.name), "qtype": u16::from(q.qtype), "qclass": u16::from(q.qclass)})).collect::<Vec<_>>(),
        "answers": m.answers.iter().map(rr_to_wire_json).collect::<Vec<_>>(),
        "authority": m.authority.iter().map(rr_to_wire_json).collect::<Vec<_>>(),
        "additional": m.additional.iter().map(rr_to_wire_json).collect::<Vec<_>>(),
    })
}

pub fn wire_json_to_msg(v: &Value) -> Option<Message> {
    let rrs = |k: &str| -> Option<Vec<ResourceRecord>> { v[k].as_array()?.iter().map(wire_json_to_rr).collect() };
    let mut qs = Vec::new();
    for q in v["questions"].as_array()? {
        qs.push(Question {
            name: octets_json_to_name(&q["name"])?,
            qtype: QueryType::from(q["qtype"].as_u64()? as u16),
            qclass: QueryClass::from(q["qclass"].as_u64()? as u16),
        });
    }
    Some(Message {
        header: Header {
            id: v["id"].as_u64()? as u16,
            is_response: v["qr"].as_bool()?,
            opcode: Opcode::from(v["opcode"].as_u64()? as u8),
            is_authoritative: v["aa"].as_bool()?,
            is_truncated: v["tc"].as_bool()?,
            recursion_desired: v["rd"].as_bool()?,
            recursion_available: v["ra"].as_bool()?,
            rcode: Rcode::from(v["rcode"].as_u64()? as u8),
        },
        questions: qs,
        answers: rrs("answers")?,
        authority: rrs("authority")?,
        additional: rrs("additional")?,
    })
}

fn err_name(e: DeErr) -> &'static str {
    match e {
        DeErr::CompletelyBusted => "CompletelyBusted",
        DeErr::HeaderTooShort(_) => "HeaderTooShort",
        DeErr::QuestionTooShort(_) => "QuestionTooShort",
        DeErr::ResourceRecordTooShort(_) => "ResourceRecordTooShort",
        DeErr::ResourceRecordInvalid(_) => "ResourceRecordInvalid",
        DeErr::DomainTooShort(_) => "DomainTooShort",
        DeErr::DomainTooLong(_) => "DomainTooLong",
        DeErr::DomainPointerInvalid(_) => "DomainPointerInvalid",
        DeErr::DomainLabelInvalid(_) => "DomainLabelInvalid",
    }
}

pub fn decode_result_json(octets: &[u8]) -> Value {
    match Message::from_octets(octets) {
        Ok(m) => json!({"ok": true, "msg": msg_to_wire_json(&m)}),
        Err(e) => json!({"ok": false, "err": err_name(e), "hasid": e.id().is_some(), "id": e.id().unwrap_or(0)}),
    }
}

fn bytes_of(v: &Value) -> Vec<u8> {
    if let Some(h) = v.as_str() {
        return crate::j::unhex(h).expect("hex");
    }
    v.as_array().expect("bytes").iter().map(|x| x.as_u64().unwrap() as u8).collect()
}

/// Runs `f` over every input line on a thread with the stack of a server
/// worker (2 MiB), flushing after each line: if the process dies (stack
/// overflow, abort) the number of complete output lines names the input.
pub fn run_on_worker_stack<F>(inp: String, out: String, f: F)
where
    F: Fn(&Value) -> Value + Send + 'static,
{
    let h = std::thread::Builder::new()
        .stack_size(2 * 1024 * 1024)
        .spawn(move || {
            let rd = BufReader::new(std::fs::File::open(&inp).expect("open"));
            let mut wr = BufWriter::new(std::fs::File::create(&out).expect("create"));
            for line in rd.lines() {
                let line = line.unwrap();
                if line.trim().is_empty() {
                    continue;
                }
                let v: Value = serde_json::from_str(&line).expect("json");
                let r = match std::panic::catch_unwind(std::panic::AssertUnwindSafe(|| f(&v))) {
                    Ok(r) => r,
                    Err(_) => json!({"ev": "panic", "in": v}),
                };
                writeln!(wr, "{r}").unwrap();
                wr.flush().unwrap();
            }
        })
        .expect("spawn");
    h.join().expect("worker");
}

/// in: {"bytes": [..] | "hex"}  out: {"ev":"decode","bytes":[..],"res":..,"reenc":{bytes,res}|null}
pub fn wire_decode(inp: &str, out: &str) {
    run_on_worker_stack(inp.to_string(), out.to_string(), |v| {
        let octets = bytes_of(&v["bytes"]);
        let res = decode_result_json(&octets);
        // re-encoding a decoded message must decode to that message again
        let mut reenc = json!({"present": false});
        if let Ok(m) = Message::from_octets(&octets) {
            reenc = match m.to_octets() {
                Ok(b2) => json!({"present": true, "ok": true, "bytes": raw(&b2), "res": decode_result_json(&b2)}),
                Err(_) => json!({"present": true, "ok": false}),
            };
        }
        json!({"ev": "decode", "bytes": raw(&octets), "res": res, "reenc": reenc})
    });
}

/// in: {"msg": {...}}  out: {"ev":"roundtrip","msg":..,"enc":{"ok":true,"bytes":[..],"res":..}|{"ok":false}}
pub fn wire_roundtrip(inp: &str, out: &str) {
    run_on_worker_stack(inp.to_string(), out.to_string(), |v| {
        let m = wire_json_to_msg(&v["msg"]).expect("message json");
        let enc = match m.to_octets() {
            Ok(b) => json!({"ok": true, "bytes": raw(&b), "res": decode_result_json(&b)}),
            Err(_) => json!({"ok": false}),
        };
        json!({"ev": "roundtrip", "msg": v["msg"], "enc": enc})
    });
}

/// in: {"msg": {...}}  out: {"hex": "..."}   (used to build corpora of valid messages)
pub fn wire_encode(inp: &str, out: &str) {
    crate::for_each_line(inp, out, |v| {
        let m = wire_json_to_msg(&v["msg"]).expect("message json");
        match m.to_octets() {
            Ok(b) => json!({"hex": crate::j::hex(&b)}),
            Err(_) => json!({"hex": ""}),
        }
    });
}
