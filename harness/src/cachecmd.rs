//! Cache commands: drive the real `SharedCache` / `Cache` under the virtual
//! clock (hook H1) and record what happened at each linearisation point
//! (hook H2: operation, result and the projected state after it).

use crate::j::*;
use dns_resolver::cache::{Cache, SharedCache};
use dns_resolver::verif;
use dns_types::protocol::types::*;
use serde_json::{json, Value};
use std::io::{BufRead, BufReader, BufWriter, Write};
use std::sync::{Arc, Barrier};

pub fn inspect_to_json(i: &verif::Inspect) -> Value {
    let mut entries = Vec::new();
    let mut parts = Vec::new();
    for p in &i.partitions {
        for r in &p.records {
            let (data, _) = rdata_to_strings(&r.rr.rtype_with_data);
            entries.push(json!({
                "name": name_to_json(&r.rr.name),
                "type": rtype_to_string(r.rr.rtype_with_data.rtype()),
                "data": data,
                "exp": r.expires_ms,
            }));
        }
        parts.push(json!({
            "name": name_to_json(&p.name),
            "last_read": p.last_read_ms,
            "next_expiry": p.next_expiry_ms,
            "size": p.size,
        }));
    }
    entries.sort_by_key(|v| v.to_string());
    parts.sort_by_key(|v| v.to_string());
    json!({
        "entries": entries,
        "parts": parts,
        "size": i.current_size,
        "desired": i.desired_size,
        "access_keys": i.access_queue.len(),
        "expiry_keys": i.expiry_queue.len(),
    })
}

fn cached_rrs_to_json(rrs: &[ResourceRecord]) -> Value {
    Value::Array(
        rrs.iter()
            .map(|rr| {
                let (data, _) = rdata_to_strings(&rr.rtype_with_data);
                json!({
                    "name": name_to_json(&rr.name),
                    "type": rtype_to_string(rr.rtype_with_data.rtype()),
                    "data": data,
                    "ttl": rr.ttl,
                })
            })
            .collect(),
    )
}

pub fn event_to_json(e: &verif::CacheEvent) -> Value {
    let post = inspect_to_json(&e.after);
    match &e.op {
        verif::CacheOp::Get {
            name,
            qtype,
            result,
        } => json!({
            "ev": "get", "thread": e.thread, "now": e.now_ms,
            "name": name_to_json(name), "qtype": qtype_to_string(*qtype),
            "ret": cached_rrs_to_json(result), "post": post,
        }),
        verif::CacheOp::Insert { record } => {
            let (data, _) = rdata_to_strings(&record.rtype_with_data);
            json!({
                "ev": "insert", "thread": e.thread, "now": e.now_ms,
                "name": name_to_json(&record.name),
                "type": rtype_to_string(record.rtype_with_data.rtype()),
                "data": data, "ttl": record.ttl, "post": post,
            })
        }
        verif::CacheOp::Prune { result } => json!({
            "ev": "prune", "thread": e.thread, "now": e.now_ms,
            "ret": {"overflow": result.0, "size": result.1, "expired": result.2, "evicted": result.3},
            "post": post,
        }),
    }
}

/// A call that returned something other than what its linearisation point recorded
/// (or that had no linearisation point at all) cannot be explained by the specification.
fn call_mismatch(op: &Value, ret: &Value, ev: Option<&verif::CacheEvent>) -> Option<Value> {
    let kind = op["op"].as_str().unwrap_or("");
    let same = match (kind, ev.map(event_to_json)) {
        ("get", Some(e)) => e["ev"] == "get" && &e["ret"] == ret,
        ("prune", Some(e)) => e["ev"] == "prune" && &e["ret"] == ret,
        ("insert", Some(e)) => e["ev"] == "insert",
        ("get" | "prune" | "insert", None) => false,
        _ => true,
    };
    if same {
        None
    } else {
        Some(json!({"ev": "call_mismatch", "op": op, "returned": ret}))
    }
}

enum Backend {
    Shared(SharedCache),
    Direct(Cache),
}

fn op_rr(v: &Value) -> ResourceRecord {
    ResourceRecord {
        name: json_to_name(&v["name"]).expect("name"),
        rtype_with_data: strings_to_rdata(v["type"].as_str().unwrap(), v["data"].as_str().unwrap())
            .expect("rdata"),
        rclass: RecordClass::IN,
        ttl: u32::try_from(v["ttl"].as_u64().unwrap()).unwrap(),
    }
}

fn apply(b: &mut Backend, v: &Value) -> Option<Value> {
    apply2(b, v).0
}

/// (harness-side extra event, what the call returned to its caller)
fn apply2(b: &mut Backend, v: &Value) -> (Option<Value>, Option<Value>) {
    match v["op"].as_str().unwrap() {
        "tick" => {
            verif::set_clock_ms(verif::clock_ms() + v["ms"].as_u64().unwrap());
            (None, None)
        }
        "insert" => {
            let rr = op_rr(v);
            match b {
                Backend::Shared(c) => {
                    c.insert(&rr);
                    if rr.ttl == 0 {
                        // the call returns without touching the cache: harness-side record
                        return (Some(json!({"ev": "insert_skipped", "now": verif::clock_ms(),
                            "name": v["name"], "type": v["type"], "data": v["data"], "ttl": 0})), None);
                    }
                }
                Backend::Direct(c) => c.insert(&rr),
            }
            (None, Some(json!("inserted")))
        }
        "insert_all" => {
            let rrs: Vec<ResourceRecord> = v["rrs"].as_array().unwrap().iter().map(op_rr).collect();
            match b {
                Backend::Shared(c) => c.insert_all(&rrs),
                Backend::Direct(c) => {
                    for rr in &rrs {
                        c.insert(rr);
                    }
                }
            }
            (None, None)
        }
        "get" => {
            let name = json_to_name(&v["name"]).expect("name");
            let qtype = string_to_qtype(v["qtype"].as_str().unwrap()).expect("qtype");
            let rrs = match b {
                Backend::Shared(c) => c.get(&name, qtype),
                Backend::Direct(c) => c.get(&name, qtype),
            };
            (None, Some(cached_rrs_to_json(&rrs)))
        }
        "prune" => {
            let r = match b {
                Backend::Shared(c) => c.prune(),
                Backend::Direct(c) => c.prune(),
            };
            (None, Some(json!({"overflow": r.0, "size": r.1, "expired": r.2, "evicted": r.3})))
        }
        other => panic!("unknown op {other}"),
    }
}

/// Sequential histories.  in: ndjson ops, segments start with {"op":"reset","desired":n,"direct":bool}
pub fn cache_run(inp: &str, out: &str) {
    let rd = BufReader::new(std::fs::File::open(inp).expect("open"));
    let mut wr = BufWriter::new(std::fs::File::create(out).expect("create"));
    let mut backend: Option<Backend> = None;
    for line in rd.lines() {
        let line = line.unwrap();
        if line.trim().is_empty() {
            continue;
        }
        let v: Value = serde_json::from_str(&line).expect("json");
        if v["op"] == "reset" {
            let d = usize::try_from(v["desired"].as_u64().unwrap()).unwrap();
            let direct = v["direct"].as_bool().unwrap_or(false);
            backend = Some(if direct {
                Backend::Direct(Cache::with_desired_size(d))
            } else {
                Backend::Shared(SharedCache::with_desired_size(d))
            });
            verif::set_clock_ms(0);
            writeln!(wr, "{}", json!({"ev": "reset", "desired": d, "direct": direct})).unwrap();
            continue;
        }
        verif::start_recording();
        let b = backend.as_mut().expect("reset first");
        let r = std::panic::catch_unwind(std::panic::AssertUnwindSafe(|| apply2(b, &v)));
        let events = verif::take_events();
        for e in &events {
            writeln!(wr, "{}", event_to_json(e)).unwrap();
        }
        match r {
            Ok((extra, ret)) => {
                if let Some(extra) = extra {
                    writeln!(wr, "{extra}").unwrap();
                }
                // what the caller got must be what happened under the lock
                if let Some(ret) = ret {
                    if let Some(bad) = call_mismatch(&v, &ret, events.last()) {
                        writeln!(wr, "{bad}").unwrap();
                    }
                }
            }
            Err(_) => writeln!(wr, "{}", json!({"ev": "panic", "op": v})).unwrap(),
        }
        // an operation that never returns must leave the earlier events on disk
        wr.flush().unwrap();
    }
    wr.flush().unwrap();
}

/// Concurrent histories.  in: one JSON document per line:
/// {"desired":n, "phases":[ {"tick":ms, "threads":[[op,..],[op,..]]}, .. ]}
/// Within a phase the threads run concurrently on one SharedCache; the virtual
/// clock only moves between phases.  The events come out in the order of the
/// sequence numbers taken under the cache mutex.
pub fn cache_threads(inp: &str, out: &str) {
    let rd = BufReader::new(std::fs::File::open(inp).expect("open"));
    let mut wr = BufWriter::new(std::fs::File::create(out).expect("create"));
    for line in rd.lines() {
        let line = line.unwrap();
        if line.trim().is_empty() {
            continue;
        }
        let doc: Value = serde_json::from_str(&line).expect("json");
        let d = usize::try_from(doc["desired"].as_u64().unwrap()).unwrap();
        let cache = SharedCache::with_desired_size(d);
        verif::set_clock_ms(0);
        writeln!(wr, "{}", json!({"ev": "reset", "desired": d, "direct": false})).unwrap();
        for phase in doc["phases"].as_array().unwrap() {
            verif::set_clock_ms(verif::clock_ms() + phase["tick"].as_u64().unwrap_or(0));
            let threads = phase["threads"].as_array().unwrap();
            let barrier = Arc::new(Barrier::new(threads.len()));
            verif::start_recording();
            let mut handles = Vec::new();
            for ops in threads {
                let ops = ops.clone();
                let cache = cache.clone();
                let barrier = barrier.clone();
                handles.push(std::thread::spawn(move || {
                    let mut b = Backend::Shared(cache);
                    barrier.wait();
                    let mut calls = Vec::new();
                    for op in ops.as_array().unwrap() {
                        let (_, ret) = apply2(&mut b, op);
                        if let Some(ret) = ret {
                            calls.push((op.clone(), ret));
                        }
                    }
                    (format!("{:?}", std::thread::current().id()), calls)
                }));
            }
            let mut panicked = false;
            let mut per_thread = Vec::new();
            for h in handles {
                match h.join() {
                    Ok(x) => per_thread.push(x),
                    Err(_) => panicked = true,
                }
            }
            let events = verif::take_events();
            for e in &events {
                writeln!(wr, "{}", event_to_json(e)).unwrap();
            }
            for (tid, calls) in &per_thread {
                let mine: Vec<&verif::CacheEvent> = events.iter().filter(|e| &e.thread == tid).collect();
                for (k, (op, ret)) in calls.iter().enumerate() {
                    if let Some(bad) = call_mismatch(op, ret, mine.get(k).copied()) {
                        writeln!(wr, "{bad}").unwrap();
                    }
                }
                if mine.len() != calls.len() {
                    writeln!(wr, "{}", json!({"ev": "call_mismatch", "op": {"op": "count"}, "returned": calls.len()})).unwrap();
                }
            }
            if panicked {
                writeln!(wr, "{}", json!({"ev": "panic", "op": "thread"})).unwrap();
            }
        }
    }
    wr.flush().unwrap();
}
