//! Configuration composition (C12): several zones and hosts maps combined through
//! Zones::insert_merge / Hosts::merge, and through load_zone_configuration on real files.

use crate::j::*;
use dns_types::hosts::types::Hosts;
use dns_types::zones::types::*;
use serde_json::{json, Value};
use std::net::{Ipv4Addr, Ipv6Addr};
use std::path::PathBuf;
use std::str::FromStr;

fn hosts_of(v: &Value) -> Hosts {
    let mut h = Hosts::new();
    for e in v.as_array().expect("hosts") {
        let name = json_to_name(&e["name"]).expect("name");
        let addr = e["addr"].as_str().unwrap();
        if e["v"].as_u64() == Some(4) {
            h.v4.insert(name, Ipv4Addr::from_str(addr).expect("v4"));
        } else {
            h.v6.insert(name, Ipv6Addr::from_str(addr).expect("v6"));
        }
    }
    h
}

fn observe(zones: &Zones, apexes: &[Value], qs: &Value) -> Value {
    let mut dumps = Vec::new();
    let mut seen = std::collections::HashSet::new();
    for a in apexes {
        let apex = json_to_name(a).expect("apex");
        if !seen.insert(apex.clone()) {
            continue;
        }
        if let Some(z) = zones.get(&apex) {
            if z.get_apex() == &apex {
                dumps.push(zone_to_json(z));
            }
        }
    }
    let mut results = Vec::new();
    for qv in qs.as_array().expect("qs") {
        let q = json_to_question(qv).expect("q");
        let (found, res) = match zones.resolve(&q.name, q.qtype) {
            Some((z, r)) => (json!({"found": true, "apex": name_to_json(z.get_apex())}), zone_result_to_json(&r)),
            None => (json!({"found": false, "apex": []}), json!({"kind": "none", "rrs": [], "cname": []})),
        };
        results.push(json!({"q": qv, "zone": found, "res": res}));
    }
    json!({"ok": true, "zones": dumps, "results": results})
}

/// in: {zones:[..], hosts:[[..]], qs:[..], files: null | {dir, zone_files:[path], zone_dirs:[path], hosts_files, hosts_dirs}}
pub fn zone_merge(inp: &str, out: &str) {
    let rt = tokio::runtime::Builder::new_current_thread().enable_all().build().expect("runtime");
    crate::for_each_line(inp, out, |v| {
        let mut apexes: Vec<Value> = v["zones"].as_array().unwrap().iter().map(|z| z["apex"].clone()).collect();
        apexes.push(json!([]));
        // through the API
        let mut zones = Zones::new();
        for zj in v["zones"].as_array().unwrap() {
            zones.insert_merge(json_to_zone(zj).expect("zone"));
        }
        let mut hosts = Hosts::default();
        for hj in v["hosts"].as_array().unwrap() {
            hosts.merge(hosts_of(hj));
        }
        zones.insert_merge(hosts.into());
        let api = observe(&zones, &apexes, &v["qs"]);
        // through files on disk
        let fs = if v["files"].is_object() {
            let p = |k: &str| -> Vec<PathBuf> {
                v["files"][k].as_array().unwrap().iter().map(|x| PathBuf::from(x.as_str().unwrap())).collect()
            };
            let loaded = rt.block_on(resolved::fs::load_zone_configuration(
                &p("hosts_files"), &p("hosts_dirs"), &p("zone_files"), &p("zone_dirs")));
            match loaded {
                Some(z) => observe(&z, &apexes, &v["qs"]),
                None => json!({"ok": false, "zones": [], "results": []}),
            }
        } else {
            json!({"ok": false, "zones": [], "results": [], "absent": true})
        };
        json!({"ev": "merge", "zones": v["zones"], "hosts": v["hosts"], "api": api, "fs": fs,
               "has_files": v["files"].is_object()})
    });
}
