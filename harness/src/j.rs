//! JSON <-> repo types.  This is only a *codec* for the harness's own canonical
//! notation: no DNS semantics (lookup, filtering, TTL arithmetic, parsing of
//! zone/hosts syntax) lives here.

use bytes::Bytes;
use dns_types::protocol::types::*;
use dns_types::zones::types::*;
use serde_json::{json, Value};
use std::net::{Ipv4Addr, Ipv6Addr};
use std::str::FromStr;

pub fn label_to_string(l: &Label) -> String {
    let mut s = String::new();
    for &b in l.octets().iter() {
        if (0x21..=0x7e).contains(&b) && b != b'\\' && b != b'.' {
            s.push(b as char);
        } else {
            s.push_str(&format!("\\{b:03}"));
        }
    }
    s
}

pub fn string_to_octets(s: &str) -> Vec<u8> {
    let bs = s.as_bytes();
    let mut out = Vec::new();
    let mut i = 0;
    while i < bs.len() {
        if bs[i] == b'\\' && i + 4 <= bs.len() {
            let d = &s[i + 1..i + 4];
            if let Ok(n) = u8::from_str(d) {
                out.push(n);
                i += 4;
                continue;
            }
        }
        out.push(bs[i]);
        i += 1;
    }
    out
}

/// name -> JSON array of label strings, most specific first, no root label
pub fn name_to_json(n: &DomainName) -> Value {
    let mut v = Vec::new();
    for l in &n.labels {
        if !l.is_empty() {
            v.push(Value::String(label_to_string(l)));
        }
    }
    Value::Array(v)
}

pub fn name_to_dotted(n: &DomainName) -> String {
    let mut s = String::new();
    for l in &n.labels {
        if !l.is_empty() {
            s.push_str(&label_to_string(l));
            s.push('.');
        }
    }
    if s.is_empty() {
        s.push('.');
    }
    s
}

pub fn json_to_name(v: &Value) -> Option<DomainName> {
    let arr = v.as_array()?;
    let mut labels = Vec::new();
    for l in arr {
        let octs = string_to_octets(l.as_str()?);
        labels.push(Label::try_from(&octs[..]).ok()?);
    }
    labels.push(Label::new());
    DomainName::from_labels(labels)
}

pub fn dotted_to_name(s: &str) -> Option<DomainName> {
    if s == "." {
        return Some(DomainName::root_domain());
    }
    let mut labels = Vec::new();
    let body = s.strip_suffix('.')?;
    for part in split_unescaped(body) {
        let octs = string_to_octets(&part);
        labels.push(Label::try_from(&octs[..]).ok()?);
    }
    labels.push(Label::new());
    DomainName::from_labels(labels)
}

fn split_unescaped(s: &str) -> Vec<String> {
    // our own notation never contains a raw '.' inside a label (it is written \046)
    s.split('.').map(|x| x.to_string()).collect()
}

pub fn hex(b: &[u8]) -> String {
    let mut s = String::with_capacity(b.len() * 2);
    for x in b {
        s.push_str(&format!("{x:02x}"));
    }
    s
}

pub fn unhex(s: &str) -> Option<Vec<u8>> {
    if s.len() % 2 != 0 {
        return None;
    }
    let mut out = Vec::new();
    let bs = s.as_bytes();
    for i in (0..bs.len()).step_by(2) {
        out.push(u8::from_str_radix(std::str::from_utf8(&bs[i..i + 2]).ok()?, 16).ok()?);
    }
    Some(out)
}

pub fn rtype_to_string(t: RecordType) -> String {
    format!("{t}")
}

pub fn qtype_to_string(t: QueryType) -> String {
    format!("{t}")
}

pub fn string_to_qtype(s: &str) -> Option<QueryType> {
    QueryType::from_str(s).ok()
}

/// canonical (data string, target name) of an RDATA
pub fn rdata_to_strings(d: &RecordTypeWithData) -> (String, Value) {
    use RecordTypeWithData::*;
    let none = json!([]);
    match d {
        A { address } => (format!("{address}"), none),
        AAAA { address } => (format!("{address}"), none),
        NS { nsdname: n }
        | MD { madname: n }
        | MF { madname: n }
        | CNAME { cname: n }
        | MB { madname: n }
        | MG { mdmname: n }
        | MR { newname: n }
        | PTR { ptrdname: n } => (name_to_dotted(n), name_to_json(n)),
        SOA {
            mname,
            rname,
            serial,
            refresh,
            retry,
            expire,
            minimum,
        } => (
            format!(
                "{} {} {serial} {refresh} {retry} {expire} {minimum}",
                name_to_dotted(mname),
                name_to_dotted(rname)
            ),
            none,
        ),
        MINFO { rmailbx, emailbx } => (
            format!("{} {}", name_to_dotted(rmailbx), name_to_dotted(emailbx)),
            none,
        ),
        MX {
            preference,
            exchange,
        } => (
            format!("{preference} {}", name_to_dotted(exchange)),
            name_to_json(exchange),
        ),
        SRV {
            priority,
            weight,
            port,
            target,
        } => (
            format!("{priority} {weight} {port} {}", name_to_dotted(target)),
            name_to_json(target),
        ),
        NULL { octets } | WKS { octets } | HINFO { octets } | TXT { octets } => {
            (format!("x{}", hex(octets)), none)
        }
        Unknown { octets, .. } => (format!("x{}", hex(octets)), none),
    }
}

pub fn strings_to_rdata(rtype: &str, data: &str) -> Option<RecordTypeWithData> {
    use RecordTypeWithData::*;
    let t = RecordType::from_str(rtype).ok()?;
    let parts: Vec<&str> = data.split(' ').collect();
    let oct = |s: &str| -> Option<Bytes> { Some(Bytes::from(unhex(s.strip_prefix('x')?)?)) };
    Some(match t {
        RecordType::A => A {
            address: Ipv4Addr::from_str(data).ok()?,
        },
        RecordType::AAAA => AAAA {
            address: Ipv6Addr::from_str(data).ok()?,
        },
        RecordType::NS => NS {
            nsdname: dotted_to_name(data)?,
        },
        RecordType::MD => MD {
            madname: dotted_to_name(data)?,
        },
        RecordType::MF => MF {
            madname: dotted_to_name(data)?,
        },
        RecordType::CNAME => CNAME {
            cname: dotted_to_name(data)?,
        },
        RecordType::MB => MB {
            madname: dotted_to_name(data)?,
        },
        RecordType::MG => MG {
            mdmname: dotted_to_name(data)?,
        },
        RecordType::MR => MR {
            newname: dotted_to_name(data)?,
        },
        RecordType::PTR => PTR {
            ptrdname: dotted_to_name(data)?,
        },
        RecordType::SOA => {
            if parts.len() != 7 {
                return None;
            }
            SOA {
                mname: dotted_to_name(parts[0])?,
                rname: dotted_to_name(parts[1])?,
                serial: parts[2].parse().ok()?,
                refresh: parts[3].parse().ok()?,
                retry: parts[4].parse().ok()?,
                expire: parts[5].parse().ok()?,
                minimum: parts[6].parse().ok()?,
            }
        }
        RecordType::MINFO => {
            if parts.len() != 2 {
                return None;
            }
            MINFO {
                rmailbx: dotted_to_name(parts[0])?,
                emailbx: dotted_to_name(parts[1])?,
            }
        }
        RecordType::MX => {
            if parts.len() != 2 {
                return None;
            }
            MX {
                preference: parts[0].parse().ok()?,
                exchange: dotted_to_name(parts[1])?,
            }
        }
        RecordType::SRV => {
            if parts.len() != 4 {
                return None;
            }
            SRV {
                priority: parts[0].parse().ok()?,
                weight: parts[1].parse().ok()?,
                port: parts[2].parse().ok()?,
                target: dotted_to_name(parts[3])?,
            }
        }
        RecordType::NULL => NULL { octets: oct(data)? },
        RecordType::WKS => WKS { octets: oct(data)? },
        RecordType::HINFO => HINFO { octets: oct(data)? },
        RecordType::TXT => TXT { octets: oct(data)? },
        RecordType::Unknown(tag) => Unknown {
            tag,
            octets: oct(data)?,
        },
    })
}

pub fn rr_to_json(rr: &ResourceRecord) -> Value {
    let (data, target) = rdata_to_strings(&rr.rtype_with_data);
    json!({
        "name": name_to_json(&rr.name),
        "type": rtype_to_string(rr.rtype_with_data.rtype()),
        "data": data,
        "target": target,
        "ttl": rr.ttl,
    })
}

pub fn rrs_to_json(rrs: &[ResourceRecord]) -> Value {
    Value::Array(rrs.iter().map(rr_to_json).collect())
}

pub fn json_to_rr(v: &Value) -> Option<ResourceRecord> {
    Some(ResourceRecord {
        name: json_to_name(&v["name"])?,
        rtype_with_data: strings_to_rdata(v["type"].as_str()?, v["data"].as_str()?)?,
        rclass: RecordClass::IN,
        ttl: u32::try_from(v["ttl"].as_u64()?).ok()?,
    })
}

pub fn json_to_soa(v: &Value) -> Option<SOA> {
    if let RecordTypeWithData::SOA {
        mname,
        rname,
        serial,
        refresh,
        retry,
        expire,
        minimum,
    } = strings_to_rdata("SOA", v["data"].as_str()?)?
    {
        Some(SOA {
            mname,
            rname,
            serial,
            refresh,
            retry,
            expire,
            minimum,
        })
    } else {
        None
    }
}

/// zone JSON: {apex:[..], auth:bool, soa:{..data..}, recs:[{name,wild,type,data,ttl}]}
/// records are inserted in the order given, through the public insertion API.
pub fn json_to_zone(v: &Value) -> Option<Zone> {
    let apex = json_to_name(&v["apex"])?;
    let soa = if v["auth"].as_bool()? {
        Some(json_to_soa(&v["soa"])?)
    } else {
        None
    };
    let mut z = Zone::new(apex, soa);
    for r in v["recs"].as_array()? {
        if r["type"].as_str()? == "SOA" {
            continue;
        }
        let name = json_to_name(&r["name"])?;
        let d = strings_to_rdata(r["type"].as_str()?, r["data"].as_str()?)?;
        let ttl = u32::try_from(r["ttl"].as_u64()?).ok()?;
        if r["wild"].as_bool()? {
            z.insert_wildcard(&name, d, ttl);
        } else {
            z.insert(&name, d, ttl);
        }
    }
    Some(z)
}

pub fn soa_to_json(soa: &SOA, apex: &DomainName) -> Value {
    let mut v = rr_to_json(&soa.to_rr(apex));
    v["wild"] = json!(false);
    v
}

pub fn dummy_soa() -> Value {
    json!({"name": [], "type": "NONE", "data": "", "target": [], "ttl": 0, "wild": false})
}

/// project a real zone to JSON (apex, auth, soa, all records incl. wildcards)
pub fn zone_to_json(z: &Zone) -> Value {
    let mut recs = Vec::new();
    for (name, zrs) in z.all_records() {
        for zr in zrs {
            let mut v = rr_to_json(&zr.to_rr(name));
            v["wild"] = json!(false);
            recs.push(v);
        }
    }
    for (name, zrs) in z.all_wildcard_records() {
        for zr in zrs {
            let mut v = rr_to_json(&zr.to_rr(name));
            v["wild"] = json!(true);
            recs.push(v);
        }
    }
    recs.sort_by_key(|v| v.to_string());
    json!({
        "apex": name_to_json(z.get_apex()),
        "auth": z.is_authoritative(),
        "soa": match z.get_soa() { Some(s) => soa_to_json(s, z.get_apex()), None => dummy_soa() },
        "recs": recs,
    })
}

pub fn zone_result_to_json(r: &ZoneResult) -> Value {
    let none: Vec<Value> = Vec::new();
    match r {
        ZoneResult::Answer { rrs } => {
            json!({"kind": "answer", "rrs": rrs_to_json(rrs), "cname": none})
        }
        ZoneResult::CNAME { cname, rr } => {
            json!({"kind": "cname", "rrs": [rr_to_json(rr)], "cname": name_to_json(cname)})
        }
        ZoneResult::Delegation { ns_rrs } => {
            json!({"kind": "delegation", "rrs": rrs_to_json(ns_rrs), "cname": none})
        }
        ZoneResult::NameError => json!({"kind": "nameerror", "rrs": none, "cname": none}),
    }
}

pub fn json_to_question(v: &Value) -> Option<Question> {
    Some(Question {
        name: json_to_name(&v["name"])?,
        qtype: string_to_qtype(v["type"].as_str()?)?,
        qclass: QueryClass::Record(RecordClass::IN),
    })
}
