//! Zone-level commands: build a real `Zone` through the public insertion API
//! and observe `Zone::resolve` / `Zones::resolve`.

use crate::j::*;
use dns_types::zones::types::*;
use serde_json::{json, Value};

/// in:  {zone:{apex,auth,soa,recs}, qs:[{name,type}]}
/// out: {ev:"zone_resolve", zone, dump, results:[{q, res, via_zones}]}
pub fn zone_resolve(inp: &str, out: &str) {
    crate::for_each_line(inp, out, |v| {
        let mut zone = json_to_zone(&v["zone"]).expect("zone json");
        // a history: zones of the same apex merged in afterwards (Zone::merge), then the lookups
        let mut merged = false;
        if let Some(ms) = v["merge"].as_array() {
            for m in ms {
                let other = json_to_zone(m).expect("zone json");
                let _ = zone.merge(other);
                merged = true;
            }
        }
        let mut zones = Zones::new();
        zones.insert(zone.clone());
        let mut results = Vec::new();
        for qv in v["qs"].as_array().expect("qs") {
            let q = json_to_question(qv).expect("question json");
            let r = zone.resolve(&q.name, q.qtype);
            let res = match &r {
                Some(r) => zone_result_to_json(r),
                None => json!({"kind": "none", "rrs": [], "cname": []}),
            };
            // the same through Zones (longest-apex selection with a single zone)
            let same = match (zones.resolve(&q.name, q.qtype), &r) {
                (Some((_, r2)), Some(r1)) => same_result(r1, &r2),
                (None, None) => true,
                _ => false,
            };
            results.push(json!({"q": qv, "res": res, "via_zones_same": same}));
        }
        json!({"ev": "zone_resolve", "zone": v["zone"], "merged": merged, "dump": zone_to_json(&zone), "results": results})
    });
}

fn sorted(v: &Value) -> Vec<String> {
    let mut s: Vec<String> = v.as_array().map(|a| a.iter().map(|x| x.to_string()).collect()).unwrap_or_default();
    s.sort();
    s
}

fn same_result(a: &ZoneResult, b: &ZoneResult) -> bool {
    let (ja, jb) = (zone_result_to_json(a), zone_result_to_json(b));
    ja["kind"] == jb["kind"] && ja["cname"] == jb["cname"] && sorted(&ja["rrs"]) == sorted(&jb["rrs"])
}
