"""C02 Zone lookup follows the standard authoritative-server algorithm (DESIGN 4, C02)."""
import json
import os

import gen
import vlib
from vlib import Verdict, tlc, vh, workdir, write_ndjson, read_ndjson, rng

PID = "C02"

MC_CFG = """SPECIFICATION Spec
CONSTANTS
  BuggyF1 = FALSE
  MaxRecs = %(maxrecs)d
  GenRecs = %(genrecs)d
  Apexes <- %(apexes)s
  Owners <- %(owners)s
  Types <- %(types)s
INVARIANTS Inv_C02_Equiv Inv_C02_Owned Inv_Gen
CHECK_DEADLOCK FALSE
"""

QTYPES = ["A", "NS", "CNAME", "TXT", "SOA", "ANY", "AXFR", "MAILA", "MAILB", "AAAA"]


def small_questions(apex):
    names = [[]]
    for d in range(1, 4):
        names += [[x] + n for n in names if len(n) == d - 1 for x in ("a", "b")]
    qs = [{"name": n + apex, "type": t} for n in names for t in QTYPES]
    qs.append({"name": ["outside", "invalid"], "type": "A"})
    return qs


def validate(v, wd, name, cases):
    """real code on `cases`, then TLC on the recorded observations"""
    inp = os.path.join(wd, name + ".in.ndjson")
    out = os.path.join(wd, name + ".out.ndjson")
    write_ndjson(inp, cases)
    vh(["zone-resolve", inp, out])
    obs = read_ndjson(out)
    kinds = {}
    for o in obs:
        if o.get("ev") == "panic":
            v.violation("panic in Zone::resolve / insertion: %s" % o.get("msg"), o["in"])
            continue
        for x in o["results"]:
            kinds[x["res"]["kind"]] = kinds.get(x["res"]["kind"], 0) + 1
            v.evaluations += 1
    obs_ok = [o for o in obs if o.get("ev") != "panic"]
    if not obs_ok:
        return kinds
    write_ndjson(out, obs_ok)
    r = tlc("ZoneLookupTrace", "ZoneLookupTrace.cfg", workers=1, env={"TRACE": out}, dfs=True, timeout=3000)
    vlib.require_ok(r, name)
    rejects = r.tagged("REJECT")
    for rej in rejects:
        o = obs_ok[rej["line"] - 1]
        qs = [o["results"][k - 1] for k in rej["qs"]][:5]
        v.violation("Zone::resolve disagrees with the RFC 1034 meaning of the zone (%s)" % rej["why"],
                    {"zone": o["zone"], "failing": qs, "dump": o["dump"] if rej["why"] == "dump" else None,
                     "replay_cmd": "vh zone-resolve <file with {zone,qs}> out; TLC ZoneLookupTrace"})
    if r.violated and not rejects:
        raise vlib.ToolError("trace not consumed to the end: " + r.out[-2000:])
    drift = r.tagged("DRIFT")
    v.notes["drift_lines"] = v.notes.get("drift_lines", 0) + len(drift)
    v.traces += len(obs_ok)
    for o in obs_ok[:2]:
        v.sample({"zone": o["zone"], "first_results": o["results"][:3]})
    return kinds


def run(tier):
    v = Verdict(PID, tier, "model_checking")
    v.rule = ("MC: every zone of <=MaxRecs records over the record universe x every question (name depth<=3, "
              "every qtype) compared between the code-shaped descent and the RFC 1034 meaning; GEN: every zone "
              "of <=2 records replayed through Zone::insert/resolve; TV: seeded random zones (<=60 records, "
              "all 18 types, wildcards, cuts, real TTL clamp). A lookup is one evaluation; distinct = distinct "
              "(zone, question) pairs whose result kind is not the trivial 'none'.")
    v.assumptions = ["D1: zones with records strictly beneath a delegation point are outside the equivalence claim",
                     "query labels never equal '*'", "TLC 1.8 evaluates the specification correctly"]
    wd = workdir("c02")
    vlib.build_harness()
    # --- MC (+ GEN inputs)
    cfgs = [dict(maxrecs=3, genrecs=2, apexes="ApexesQuick", owners="OwnersQuick", types="TypesQuick")]
    if tier == "thorough":
        cfgs = [dict(maxrecs=4, genrecs=2, apexes="ApexesAll", owners="OwnersQuick", types="TypesQuick"),
                dict(maxrecs=3, genrecs=0, apexes="ApexesQuick", owners="OwnersAll", types="TypesAll")]
    genzones = []
    for c in cfgs:
        r = tlc("MCZoneLookup", None, cfg_text=MC_CFG % c, timeout=3400)
        vlib.require_ok(r, "MCZoneLookup")
        v.add_tlc(r)
        if r.violated:
            v.violation("model: code-shaped lookup violates %s" % r.violated, {"tlc_output": r.out[-6000:]})
        genzones += r.tagged("GENZONE")
    v.exhaustive = True
    # --- GEN: every small zone through the real code
    seen = set()
    cases = []
    for z in genzones:
        k = json.dumps(z, sort_keys=True)
        if k in seen:
            continue
        seen.add(k)
        cases.append({"zone": z, "qs": small_questions(z["apex"])})
    kinds = validate(v, wd, "gen", cases)
    v.notes["gen_zones"] = len(cases)
    # --- TV: random larger zones
    r_ = rng(2)
    n = 150 if tier == "quick" else 3000
    cases = []
    for i in range(n):
        z = gen.rand_zone(r_, maxrecs=60 if i % 3 else 12, d1free=(i % 2 == 0))
        cases.append({"zone": z, "qs": gen.zone_questions(r_, z)})
    # histories: a second (third) zone of the same apex merged in afterwards - another SOA, a larger or smaller
    # minimum TTL, overlapping owners - then the lookups: what comes back is what the merged zone holds
    for i in range(n // 3):
        z = gen.rand_zone(r_, maxrecs=12, d1free=True, auth=True)
        others = []
        for _ in range(r_.choice([1, 1, 2])):
            o = gen.rand_zone(r_, maxrecs=8, d1free=True, apex=z["apex"], auth=r_.random() < 0.8)
            others.append(o)
        qs = gen.zone_questions(r_, z)
        for o in others:
            qs += gen.zone_questions(r_, o)[:12]
        cases.append({"zone": z, "merge": others, "qs": qs})
    for lo in range(0, len(cases), 500):
        k2 = validate(v, wd, "tv%d" % lo, cases[lo:lo + 500])
        for k, c in k2.items():
            kinds[k] = kinds.get(k, 0) + c
    v.notes["result_kinds"] = kinds
    v.distinct = sum(c for k, c in kinds.items() if k != "none")
    missing = [k for k in ("answer", "cname", "delegation", "nameerror") if kinds.get(k, 0) == 0]
    if missing:
        raise vlib.ToolError("vacuous run: result kinds never observed: %s" % missing)
    return v.finish()
