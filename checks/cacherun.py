"""C05 / C15: one pipeline, violations attributed to the property that owns the rejected step."""
import os

import cachecommon as cc
import gen
import vlib
from vlib import Verdict, vh, workdir, write_ndjson, read_ndjson, rng

C05_INVS = {"Prop_C05_C15_Refines"}


def random_history(r, nops, names, types, desired, direct):
    ops = [{"op": "reset", "desired": desired, "direct": direct}]
    pool = []
    for _ in range(nops):
        x = r.random()
        if x < 0.40 or not pool:
            n = r.choice(names)
            t = r.choice(types)
            if pool and r.random() < 0.35:
                n, t, d = r.choice(pool)          # re-insert (new TTL) of something seen
            else:
                d, _ = gen.rand_rdata(r, t)
                if r.random() < 0.5:
                    d = {"A": "10.0.0.1", "AAAA": "2001:db8::1"}.get(t, d)
            pool.append((n, t, d))
            ttl = r.choice([0, 1, 1, 2, 2, 3, 5, 5, 60, 86400] if direct or r.random() < 0.9 else [0])
            ops.append({"op": "insert", "name": n, "type": t, "data": d, "ttl": ttl})
        elif x < 0.48:
            k = r.randint(1, 4)
            rrs = []
            for _ in range(k):
                n = r.choice(names)
                t = r.choice(types)
                d, _ = gen.rand_rdata(r, t)
                rrs.append({"name": n, "type": t, "data": d, "ttl": r.choice([0, 1, 2, 5, 300])})
                if rrs[-1]["ttl"] > 0:
                    pool.append((n, t, d))
            ops.append({"op": "insert_all", "rrs": rrs})
        elif x < 0.70:
            ops.append({"op": "get", "name": r.choice(names), "qtype": r.choice(types + ["ANY", "ANY", "AXFR"])})
        elif x < 0.82:
            ops.append({"op": "prune"})
        else:
            ops.append({"op": "tick", "ms": r.choice([1, 250, 500, 999, 1000, 1000, 1001, 1500, 2000, 4000])})
    return ops


def random_threads_doc(r, nthreads, names, types, desired):
    phases = []
    for _ in range(r.randint(3, 8)):
        threads = []
        for _t in range(nthreads):
            ops = []
            for _ in range(r.randint(2, 10)):
                x = r.random()
                if x < 0.5:
                    t = r.choice(types)
                    d = {"A": "10.0.0.%d" % r.randint(1, 3), "TXT": "x0%d" % r.randint(1, 3)}.get(t)
                    if d is None:
                        d, _ = gen.rand_rdata(r, t)
                    ops.append({"op": "insert", "name": r.choice(names), "type": t, "data": d,
                                "ttl": r.choice([1, 2, 3, 5])})
                elif x < 0.8:
                    ops.append({"op": "get", "name": r.choice(names), "qtype": r.choice(types + ["ANY"])})
                else:
                    ops.append({"op": "prune"})
            threads.append(ops)
        phases.append({"tick": r.choice([0, 500, 1000, 1500, 2500]), "threads": threads})
    return {"desired": desired, "phases": phases}


class Hung(Exception):
    pass


def run_cache(v, pid, cmd, inp, out, ops, tier):
    """the harness on a cache history; an operation that never returns (or takes the process down) is data:
    C15 demands that pruning terminates, C05 / C15 are about operations that return"""
    import subprocess
    exe = vlib.build_harness()
    limit = 240 if tier == "quick" else 1800
    try:
        p = subprocess.run([exe, cmd, inp, out], stdout=subprocess.PIPE, stderr=subprocess.PIPE, text=True, timeout=limit)
        if p.returncode == 0:
            return
        reason = "the process ended with status %d: %s" % (p.returncode, p.stderr[-300:])
    except subprocess.TimeoutExpired:
        reason = "no return within %d s" % limit
    events = read_ndjson(out) if os.path.exists(out) else []
    # the history that was running: as many `reset` events as were written = the reset line that started it
    nreset = sum(1 for e in events if e.get("ev") == "reset")
    if cmd == "cache-run":
        starts = [i for i, o in enumerate(ops) if o.get("op") == "reset"]
        a = starts[nreset - 1] if 0 < nreset <= len(starts) else 0
        b = starts[nreset] if nreset < len(starts) else len(ops)
        history = ops[a:b]
    else:
        history = ops[nreset - 1] if 0 < nreset <= len(ops) else None
    v.violation("a cache operation did not return (%s)" % reason,
                {"command": cmd, "events_written_before": len(events), "history": history,
                 "last_events": [{k: e[k] for k in e if k != "post"} for e in events[-5:]]})
    raise Hung()


def run(pid, tier):
    v = Verdict(pid, tier, "model_checking")
    try:
        return run_(v, pid, tier)
    except Hung:
        v.notes["run_incomplete"] = True
        return v.finish()


def run_(v, pid, tier):
    v.rule = ("MC: every history (any number of insert / get / ANY get / prune / tick steps) of the code-shaped cache "
              "model over 2 names x 2 types, TTL 0..2 s, half-second ticks, checked against the user-level relations "
              "of module Cache on every transition; GEN: a walk over the real cache covering every transition of a "
              "smaller model's state graph; TV: seeded random sequential histories and concurrent histories "
              "(2..8 threads) recorded at the linearisation points. An evaluation is one recorded cache operation; "
              "distinct = operations validated by TLC (each is a distinct position of a distinct history).")
    v.assumptions = ["I5: a record may be withheld during its last sub-second",
                     "the virtual clock (hook H1) replaces Instant::now() inside cache.rs only",
                     "hook H2 events are emitted under the cache mutex, after the state change"]
    wd = workdir(pid.lower())
    vlib.build_harness()
    # --- MC
    for r in cc.mc(v, tier):
        owner = "C15" if r.violated.startswith("Inv_C15") else "both"
        if owner in (pid, "both"):
            v.violation("model: code-shaped cache violates %s" % r.violated, {"tlc_output": r.out[-8000:]})
    v.exhaustive = True
    # --- GEN: graph walk
    es, desired, r = cc.edges(tier)
    segs = cc.covering_walks(es)
    tick = 1000
    ops = []
    for seg in segs:
        ops.append({"op": "reset", "desired": desired, "direct": True})
        ops += [cc.model_op_to_harness(o, tick) for o in seg]
    inp = os.path.join(wd, "walk.in.ndjson")
    out = os.path.join(wd, "walk.out.ndjson")
    write_ndjson(inp, ops)
    run_cache(v, pid, "cache-run", inp, out, ops, tier)
    events = read_ndjson(out)
    v.notes["graph_edges"] = len(es)
    v.notes["graph_walk_segments"] = len(segs)
    done, total = cc.validate(v, pid, wd, "walk", events)
    v.traces += done
    v.evaluations += len(events)
    v.sample({"graph_walk_first_events": [{k: e[k] for k in e if k != "post"} for e in events[:6]]})
    # --- TV: random sequential histories
    r_ = rng(5)
    names = [["a"], ["b"], ["www", "a"], ["x", "y", "z"], ["c"], ["d"]]
    types = ["A", "AAAA", "TXT", "CNAME", "NS", "MX"]
    nhist = 300 if tier == "quick" else 2000
    ops = []
    for i in range(nhist):
        ops += random_history(r_, r_.randint(10, 80), names[:r_.randint(2, 6)], types[:r_.randint(1, 6)],
                              r_.choice([0, 1, 2, 3, 5, 8]), direct=(i % 4 == 0))
    for lo in range(0, nhist, 400):
        pass
    inp = os.path.join(wd, "rand.in.ndjson")
    out = os.path.join(wd, "rand.out.ndjson")
    write_ndjson(inp, ops)
    run_cache(v, pid, "cache-run", inp, out, ops, tier)
    events = read_ndjson(out)
    # validate in chunks of whole segments to bound TLC's heap
    bounds = cc.segment_bounds(events)
    chunk = []
    for (a, b) in bounds:
        chunk += events[a:b]
        if len(chunk) > 20000:
            d, t = cc.validate(v, pid, wd, "rand", chunk)
            v.traces += d
            chunk = []
    if chunk:
        d, t = cc.validate(v, pid, wd, "rand", chunk)
        v.traces += d
    v.evaluations += len(events)
    v.sample({"random_history_first_events": [{k: e[k] for k in e if k != "post"} for e in events[:8]]})
    # --- TV: concurrent histories
    docs = []
    ndocs = 60 if tier == "quick" else 500
    for i in range(ndocs):
        docs.append(random_threads_doc(r_, r_.randint(2, 8), names[:r_.randint(2, 4)], ["A", "TXT"],
                                       r_.choice([1, 2, 3, 6])))
    inp = os.path.join(wd, "thr.in.ndjson")
    out = os.path.join(wd, "thr.out.ndjson")
    write_ndjson(inp, docs)
    run_cache(v, pid, "cache-threads", inp, out, docs, tier)
    events = read_ndjson(out)
    bounds = cc.segment_bounds(events)
    chunk = []
    for (a, b) in bounds:
        chunk += events[a:b]
        if len(chunk) > 20000:
            d, t = cc.validate(v, pid, wd, "thr", chunk)
            v.traces += d
            chunk = []
    if chunk:
        d, t = cc.validate(v, pid, wd, "thr", chunk)
        v.traces += d
    v.evaluations += len(events)
    v.notes["concurrent_histories"] = ndocs
    v.sample({"concurrent_history_first_events": [{k: e[k] for k in e if k != "post"} for e in events[:6]]})
    v.distinct = v.evaluations
    v.transitions += getattr(v, "transitions_tv", 0)
    return v.finish()
