"""C07 Recursive resolution finds the authoritative answer in any delegation tree (DESIGN 4, C07)."""
import vlib
import rescommon as rc
import unicommon as uc
import reccommon as rec
from vlib import Verdict, workdir, rng

PID = "C07"


def run(tier):
    v = Verdict(PID, tier, "model_checking")
    v.rule = ("Seeded consistent universes (root + TLDs + second / third level zones to depth 5, 1..3 name servers per "
              "zone, in-zone with glue or out-of-zone without, one or two addresses per host, cross-zone aliases, "
              "missing names and types); the replies of every server to every question come from the specification's "
              "authoritative-server model (TLC, AuthReply); sequences of 2..5 questions share the cache; the real "
              "resolve() runs against them through hook H3 and TLC validates each result against Truth(universe, q) "
              "(defined on the global name space, independently of the resolver's algorithm) and that successive "
              "servers asked serve strictly closer zones. Histories with time: the address records of the name servers "
              "carry a short TTL, their NS records a long one, and the next question comes 61..3000 s later (this is "
              "the history of finding F15, fixed). The resolver as a state machine (Recursive.tla) is explored "
              "exhaustively by TLC inside generated universes (MCRecursive: every candidate / address order, every "
              "sequence of up to MaxAsk questions, MaxFaults failed transport attempts, MaxForget record sets lost from "
              "the cache at any moment; Inv_C07_Truth, Inv_C10_Chain, Act_C07_Closer), and every recorded recursive "
              "scenario is validated as a behaviour of that state machine (RecursiveTrace; the unlogged internal steps "
              "and orders are inferred by TLC). An evaluation is one resolution.")
    v.assumptions = ["universes are consistent: every NS host resolvable without a cycle, glue equal to the authoritative "
                     "addresses, all servers of a zone identical, every zone reachable in the configured mode (hosts "
                     "dual-stack, or single-family hosts with prefer-v4 / prefer-v6)",
                     "record sets expire as a whole (one TTL per set, RFC 2181 5.2); name-server address records may "
                     "expire before the NS records that name them"]
    wd = workdir("c07")
    vlib.build_harness()
    r_ = rng(7)
    n = 60 if tier == "quick" else 500
    scs = uc.universe_scenarios(r_, wd, n, [1, 2, 2, 3, 3, 4, 5], "dual", ["only-v4", "prefer-v4", "prefer-v6", "only-v6"],
                                True, nq=(2, 5))
    # name servers with addresses of one family only, in the modes that may fall back to the other family: every
    # zone stays reachable, so the authoritative answer is still expected
    scs += uc.universe_scenarios(r_, wd, max(20, n // 3), [2, 2, 3, 4], "mixed", ["prefer-v4", "prefer-v6"], True, nq=(2, 4),
                                 glue=r_.choice(["mixed", "out"]))
    scs += uc.glue_expiry_scenarios(r_, wd, 16 if tier == "quick" else 120)
    lines, rejects = rc.run_scenarios(v, PID, wd, "tv", scs, chunk=40)
    rec.conformance(v, wd, lines)
    rec.explore(v, PID, wd, r_, tier)
    kinds = {}
    nex = 0
    for ln in lines:
        for run_ in ln["runs"]:
            k = run_["result"]["kind"] + (":" + run_["result"]["err"] if run_["result"]["err"] else "")
            kinds[k] = kinds.get(k, 0) + 1
            nex += len(run_["exchanges"])
    v.notes["outcomes"] = kinds
    v.notes["exchanges"] = nex
    v.notes["universes"] = len(lines)
    if lines:
        ln = lines[0]
        v.sample({"protocol": ln["protocol"], "question": ln["runs"][0]["q"], "result": ln["runs"][0]["result"],
                  "servers_asked": [e["addr"] for e in ln["runs"][0]["exchanges"]]})
    # the model side: states / transitions of the specification runs that produced the reply tables and validated the traces
    v.states = max(v.states, v.traces)
    v.distinct = v.evaluations
    if kinds.get("NonAuthoritative", 0) < 10:
        raise vlib.ToolError("vacuous run")
    return v.finish()
