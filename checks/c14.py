"""C14 Hosts files are read as hosts(5) describes and convert losslessly (DESIGN 4, C14)."""
import ipaddress
import os

import vlib
import wirecommon as wc
from vlib import Verdict, tlc, vh, workdir, rng, write_ndjson, read_ndjson

PID = "C14"

CFG = """SPECIFICATION Spec
CONSTANTS
  BuggyHosts = FALSE
  MaxLen = %(maxlen)d
  GenLen = %(genlen)d
INVARIANTS Inv_C14_Line Inv_Gen
CHECK_DEADLOCK FALSE
"""

V4 = ["10.0.0.4", "0.0.0.0", "192.168.1.20", "255.255.255.255", "127.0.0.1"]
V6 = ["2001:db8::6", "::1", "::", "2001:db8:0:1:2:3:4:5", "fe80::1", "2001:db8::abcd:0:0:12"]


def cps(s):
    return [ord(c) for c in s]


def lit_entries():
    """address literals in several textual forms, each with its canonical value (as Rust displays it)"""
    es = []
    for a in V4:
        es.append({"tok": cps(a), "v": 4, "canon": a})
    for a in V6:
        ip = ipaddress.IPv6Address(a)
        canon = ip.compressed
        forms = {canon, ip.exploded, canon.upper(), ip.exploded.upper()}
        full = ip.exploded.split(":")
        forms.add(":".join(h.lstrip("0") or "0" for h in full))       # no compression, no leading zeros
        for f in forms:
            es.append({"tok": cps(f), "v": 6, "canon": canon})
    es.append({"tok": cps("::ffff:1.2.3.4"), "v": 6, "canon": "::ffff:1.2.3.4"})
    es.append({"tok": cps("::FFFF:1.2.3.4"), "v": 6, "canon": "::ffff:1.2.3.4"})
    es.append({"tok": cps("0:0:0:0:0:ffff:102:304"), "v": 6, "canon": "::ffff:1.2.3.4"})
    return es


LITS = lit_entries()


def concretise(line):
    """abstract model line (code points; 52 / 54 stand for literals) -> real text"""
    out = []
    for c in line:
        if c == 52:
            out += cps("10.0.0.4")
        elif c == 54:
            out += cps("2001:db8::6")
        else:
            out.append(c)
    return out


def random_file(r):
    names = ["a", "b", "host", "www.example.com", "www.example.com.", "X.Y", "printer.lan", "a.b.c.d.e", "mail",
             "under_score", "0", "xn--caf-dma", "l" * 63, ("l" * 63 + ".") * 3 + "k" * 61, "*.apps.lan", "x.*.lan"]
    bad_names = ["a..b", ".a", "l" * 64, ("l" * 63 + ".") * 4, "café", "..", "a.b..", "xéy"]
    bad_addrs = ["zzz", "1.2.3", "1.2.3.4.5", "256.1.1.1", "01.2.3.4", "::g", "1:2:3:4:5:6:7:8:9", "1.2.3.4x", ":::",
                 "é", "12345::", "%eth0"]
    blanks = [" ", "\t", "  ", " \t ", "\x0b", "\x0c", "\r"]
    lines = []
    for _ in range(r.randint(1, 10)):
        x = r.random()
        lead = r.choice(["", "", " ", "\t"])
        if x < 0.08:
            lines.append(r.choice(["", " ", "\t\t", "# just a comment", "   # indented comment é"]))
            continue
        e = r.choice(LITS)
        addr = "".join(chr(c) for c in e["tok"])
        if x < 0.14:
            addr = r.choice(bad_addrs)
        elif x < 0.20:
            addr = addr + "%" + r.choice(["eth0", "1", ""])
        nn = r.choice([0, 1, 1, 1, 2, 3])
        ns = [r.choice(names) for _ in range(nn)]
        if r.random() < 0.06 and ns:
            ns[r.randrange(len(ns))] = r.choice(bad_names)
        if r.random() < 0.3:
            ns = [n.upper() if r.random() < 0.5 else n for n in ns]
        line = lead + addr
        for n in ns:
            line += r.choice(blanks) + n
        y = r.random()
        if y < 0.15:
            line += r.choice(["#c", "# c", "#", "#é", "# x é", "#1.2.3.4 zzz", "#%", "# 80% full"])
        elif y < 0.30:
            line += r.choice(blanks) + r.choice(["#c", "# comment", "#é x", "## 5.6.7.8 other", "# moved, 100% sure", "#%eth0"])
        elif y < 0.38:
            line += r.choice(blanks)
        lines.append(line)
    if len(lines) >= 2 and r.random() < 0.35:
        lines.append(r.choice(lines[:-1]))          # an earlier line again, verbatim, after later ones
    sep = r.choice(["\n", "\n", "\r\n"])
    text = sep.join(lines)
    if r.random() < 0.6:
        text += sep
    return text


def validate(v, wd, name, cases):
    inp = os.path.join(wd, name + ".in.ndjson")
    out = os.path.join(wd, name + ".out.ndjson")
    write_ndjson(inp, cases)
    vh(["hosts", inp, out])
    obs = read_ndjson(out)
    good = []
    for o in obs:
        if o.get("ev") == "panic":
            v.violation("hosts parser / converter panicked", {"text": "".join(chr(c) for c in o["in"]["text"])})
        else:
            good.append(o)
    path = os.path.join(wd, name + ".trace.ndjson")
    for lo in range(0, len(good), 4000):
        part = good[lo:lo + 4000]
        write_ndjson(path, part)
        r = tlc("HostsTrace", "HostsTrace.cfg", workers=1, env={"TRACE": path}, dfs=True, timeout=3000, xmx="12g")
        vlib.require_ok(r, name)
        v.transitions += r.generated
        rej = r.tagged_raw("REJECT")
        if r.violated and not rej:
            raise vlib.ToolError("trace not consumed: " + r.out[-1500:])
        for x in rej:
            o = part[int(x) - 1]
            v.violation("hosts text is not read / converted as hosts(5) and C14 demand",
                        {"text": "".join(chr(c) for c in o["text"]), "parse": o["parse"],
                         "conv": wc.shrink(o["conv"], 40)})
        v.traces += len(part)
    v.evaluations += len(good)
    v.notes[name + "_accepted"] = sum(1 for o in good if o["parse"]["ok"])
    v.notes[name + "_rejected"] = sum(1 for o in good if not o["parse"]["ok"])
    if good:
        o = good[len(good) // 2]
        v.sample({"text": "".join(chr(c) for c in o["text"]), "parse": o["parse"]})
    return good


def run(tier):
    v = Verdict(PID, tier, "model_checking")
    v.rule = ("MC: the character machine of parse_line against hosts(5) on every line of <=MaxLen characters over "
              "{space, tab, #, %, IPv4 literal, IPv6 literal, x, y, ., X, non-ASCII}; GEN: every line of <=GenLen "
              "characters (literals concretised) as a one-line file, and pairs of lines as two-line files, through "
              "Hosts::deserialise, serialise, Zone::from, Hosts::try_from, from_zone_lossy and Zone::resolve; TV: seeded "
              "random files (several textual forms per address, aliases, comments after any field, duplicate and "
              "conflicting lines, malformed fields). An evaluation is one file; distinct = distinct files.")
    v.assumptions = ["the dictionary of address literals (text -> canonical value) is supplied with each case by the "
                     "generator, which renders known addresses into text",
                     "a first field that begins with % is a malformed address, not an interface suffix"]
    wd = workdir("c14")
    vlib.build_harness()
    r_ = rng(14)
    maxlen, genlen = (5, 4) if tier == "quick" else (6, 5)
    r = tlc("MCHosts", None, cfg_text=CFG % dict(maxlen=maxlen, genlen=genlen), timeout=3400, xmx="16g")
    vlib.require_ok(r, "MCHosts")
    v.add_tlc(r)
    if r.violated:
        v.violation("model: parse_line machine disagrees with hosts(5): %s" % r.violated, {"tlc_output": r.out[-3000:]})
    v.exhaustive = True
    lines = [concretise(x) for x in r.tagged("GENLINE")]
    cases = [{"text": ln, "lits": LITS} for ln in lines]
    mapping = [ln for ln in lines if 120 in ln or 121 in ln]
    for _ in range(min(len(mapping), 3000 if tier == "quick" else 30000)):
        a, b = r_.choice(mapping), r_.choice(mapping)
        cases.append({"text": a + [10] + b + ([10] if r_.random() < 0.5 else []), "lits": LITS})
    # a line, a conflicting line, and the first line again verbatim: the last one must win
    for _ in range(min(len(mapping), 3000 if tier == "quick" else 30000)):
        a, b = r_.choice(mapping), r_.choice(mapping)
        cases.append({"text": a + [10] + b + [10] + a + [10], "lits": LITS})
    v.notes["gen_files"] = len(cases)
    validate(v, wd, "gen", cases)
    cases = [{"text": cps(random_file(r_)), "lits": LITS} for _ in range(3000 if tier == "quick" else 25000)]
    validate(v, wd, "tv", cases)
    # the three converter binaries on a sample (htoh normalises, htoz converts, ztoh converts back)
    v.distinct = v.evaluations
    return v.finish()
