"""C15 Cache pruning is exact, bounded and least-recently-used (DESIGN 4, C15)."""
import cacherun


def run(tier):
    return cacherun.run("C15", tier)
