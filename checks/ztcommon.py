"""Machinery shared by C11 / C13 / C17 (zone-file text)."""
import glob
import os

import gen
import vlib
import wirecommon as wc
from vlib import tlc, vh, write_ndjson, read_ndjson

MC_CFG = """SPECIFICATION Spec
CONSTANTS
  BuggyF14 = FALSE
  BuggyF9 = FALSE
  MaxEntries = %(entries)d
  Layouts = {"plain", "comment", "paren", "tight"}
INVARIANTS Inv_C11_Parse Inv_C11_Reject %(gen)s
CHECK_DEADLOCK FALSE
"""

LITS = gen.zt_lits()


def cps(s):
    return [ord(c) for c in s]


def text_case(text, claim, lits=None):
    return {"mode": "text", "text": cps(text), "lits": lits if lits is not None else gen.scan_lits(text, LITS),
            "claim": claim}


def run_cases(v, wd, name, cases):
    """real code on the cases, TLC on the observations. returns (observations, rejects [(obs index, why)], nbig)"""
    inp = os.path.join(wd, name + ".in.ndjson")
    out = os.path.join(wd, name + ".out.ndjson")
    # a parse or write that never returns, or takes the process down, is data (reported like a panic: the case is kept)
    obs, crashes = wc.run_harness_lines("zone-text", inp, out, cases, timeout=max(120, len(cases) // 40), max_crashes=6)
    good = []
    panics = []
    for idx, reason in crashes:
        c = cases[idx] if idx < len(cases) else {}
        panics.append({"ev": "panic", "msg": "no result: " + reason, "in": c})
    for o in obs:
        if o.get("ev") == "panic":
            panics.append(o)
        else:
            good.append(o)
    path = os.path.join(wd, name + ".trace.ndjson")
    rejects = []
    nbig = 0
    for lo in range(0, len(good), 2500):
        part = good[lo:lo + 2500]
        write_ndjson(path, part)
        r = tlc("ZoneTextTrace", "ZoneTextTrace.cfg", workers=1, env={"TRACE": path}, dfs=True, timeout=3000, xmx="12g")
        vlib.require_ok(r, name)
        v.transitions += r.generated
        rej = r.tagged_raw("REJECT")
        if r.violated and not rej:
            raise vlib.ToolError("trace not consumed: " + r.out[-1500:])
        for x in rej:
            idx, why = x.split(",")
            rejects.append((lo + int(idx.strip()) - 1, why.strip().strip('"')))
        nbig += len(r.tagged_raw("BIG"))
    return good, panics, rejects, nbig


def show(o):
    d = {"mode": o.get("mode"), "out": wc.shrink(o.get("out"), 12)}
    if "text" in o:
        d["text"] = "".join(chr(c) for c in o["text"])[:3000]
    if "zone" in o:
        d["zone"] = wc.shrink(o["zone"], 12)
    rt = o.get("rt", {})
    if rt.get("present"):
        d["written"] = "".join(chr(c) for c in rt["ser"])[:3000]
        d["reparse_equal"] = rt.get("equal")
    return d


def repo_zone_files():
    out = []
    for p in sorted(glob.glob("/repo/config/zones/*")) + sorted(glob.glob("/repo/config/**/*.zone", recursive=True)):
        if os.path.isfile(p) and os.path.getsize(p) < 200000:
            try:
                out.append(open(p, encoding="utf-8").read())
            except UnicodeDecodeError:
                pass
    return out
