"""C06 Upstream replies are filtered: only records relevant to the question are used (DESIGN 4, C06)."""
import os

import vlib
import wirecommon as wc
import rescommon as rc
from vlib import Verdict, tlc, vh, workdir, rng, write_ndjson, read_ndjson

PID = "C06"

CFG = """SPECIFICATION Spec
CONSTANTS
  BuggyF1 = FALSE
  BuggyF3 = FALSE
  BuggyF4 = FALSE
  Limit = 32
  MaxRecs = %(recs)d
INVARIANTS Inv_C06_UsedSubset %(gen)s
CHECK_DEADLOCK FALSE
"""

QUESTIONS = [{"name": ["www", "ex", "com"], "type": "A"}, {"name": ["www", "ex", "com"], "type": "ANY"},
             {"name": ["ex", "com"], "type": "NS"}, {"name": ["www", "ex", "com"], "type": "CNAME"},
             {"name": ["t", "ex", "com"], "type": "A"}]


def validate_filter(v, wd, name, cases):
    inp = os.path.join(wd, name + ".in.ndjson")
    out = os.path.join(wd, name + ".out.ndjson")
    write_ndjson(inp, cases)
    vh(["validate", inp, out])
    obs = read_ndjson(out)
    good = []
    for o in obs:
        if o.get("ev") == "panic":
            v.violation("validate_nameserver_response panicked", wc.shrink(o["in"], 20))
        else:
            good.append(o)
    path = os.path.join(wd, name + ".trace.ndjson")
    for lo in range(0, len(good), 20000):
        part = good[lo:lo + 20000]
        write_ndjson(path, part)
        r = tlc("ValidateTrace", "ValidateTrace.cfg", workers=1, env={"TRACE": path}, dfs=True, timeout=3000, xmx="12g")
        vlib.require_ok(r, name)
        v.transitions += r.generated
        rej = r.tagged_raw("REJECT")
        if r.violated and not rej:
            raise vlib.ToolError("trace not consumed: " + r.out[-1500:])
        for x in rej:
            o = part[int(x) - 1]
            v.violation("the reply filter keeps a record that is not relevant to the question",
                        {"q": o["q"], "match_count": o["mc"], "reply": o["reply"], "kept": o["out"]})
        v.notes["drift_lines"] = v.notes.get("drift_lines", 0) + len(r.tagged_raw("DRIFT"))
        v.traces += len(part)
    v.evaluations += len(good)
    kinds = {}
    for o in good:
        kinds[o["out"]["kind"]] = kinds.get(o["out"]["kind"], 0) + 1
    v.notes[name + "_kept_kinds"] = kinds
    if good:
        v.sample({"q": good[len(good) // 2]["q"], "mc": good[len(good) // 2]["mc"], "reply": good[len(good) // 2]["reply"],
                  "kept": good[len(good) // 2]["out"]})
    return good


def run(tier):
    v = Verdict(PID, tier, "model_checking")
    v.rule = ("MC: every reply of <=MaxRecs records, each in any of the three sections, from a 19-record universe "
              "(answers, on- and off-path aliases, NS for ancestors / non-ancestors / foreign owners with a selected "
              "target, glue for named and unnamed hosts, SOAs) x 3 questions x 3 delegation depths: what the "
              "code-shaped filter keeps is a subset of what C06 allows; GEN: the same replies through the real "
              "validate_nameserver_response; TV: end-to-end recursive resolutions against adversarial upstreams with "
              "header mismatches, the cache inspected afterwards. An evaluation is one reply or one resolution.")
    v.assumptions = ["replies contain known record types only", "hook H5 exposes the private filter unchanged"]
    wd = workdir("c06")
    vlib.build_harness()
    r_ = rng(6)
    recs = 3 if tier == "quick" else 4
    r = tlc("MCValidate", None, cfg_text=CFG % dict(recs=recs, gen=""), timeout=3400, xmx="16g")
    vlib.require_ok(r, "MCValidate")
    v.add_tlc(r)
    if r.violated:
        v.violation("model: the filter model keeps irrelevant records (%s)" % r.violated, {"tlc_output": r.out[-3000:]})
    v.exhaustive = True
    r = tlc("MCValidate", None, cfg_text=CFG % dict(recs=3, gen="Inv_Gen"), timeout=3400, xmx="16g")
    vlib.require_ok(r, "MCValidate gen")
    cases = []
    for rep in r.tagged("GENREPLY"):
        n = len(rep["answers"]) + len(rep["authority"]) + len(rep["additional"])
        if n <= 2 or tier == "thorough":
            for q in QUESTIONS[:3]:
                for mc in (1, 2, 3):
                    cases.append({"q": q, "mc": mc, "reply": rep})
        else:
            for mc in (1, 2):
                cases.append({"q": QUESTIONS[0], "mc": mc, "reply": rep})
    v.notes["gen_cases"] = len(cases)
    validate_filter(v, wd, "gen", cases)
    # random larger replies
    univ = rc.adversarial_universe()
    cases = []
    for _ in range(3000 if tier == "quick" else 30000):
        rep = {"rcode": r_.choice([0, 0, 3]), "answers": [], "authority": [], "additional": []}
        for _k in range(r_.randint(0, 7)):
            rep[r_.choice(["answers", "answers", "authority", "additional"])].append(r_.choice(univ))
        cases.append({"q": r_.choice(QUESTIONS), "mc": r_.choice([1, 2, 3, 4]), "reply": rep})
    validate_filter(v, wd, "tv", cases)
    # end to end: header mismatches discard the reply as a whole; nothing irrelevant reaches the cache or the answer
    rc.end_to_end_c06(v, wd, r_, tier)
    v.distinct = v.evaluations
    return v.finish()
