"""C16 Domain names are always well-formed and compared case-insensitively (DESIGN 4, C16)."""
import os

import vlib
import wirecommon as wc
from vlib import Verdict, tlc, vh, workdir, rng, write_ndjson, read_ndjson

PID = "C16"

CFG = """SPECIFICATION Spec
CONSTANTS
  MaxLabels = %(maxlabels)d
  Lens = %(lens)s
  Classes = {"lower", "upper", "digit", "high", "mixed", "utf8"}
INVARIANTS Inv_C16_Text Inv_C16_Limits Inv_C16_Join Inv_C16_Wire %(gen)s
CHECK_DEADLOCK FALSE
"""


def validate_names(v, wd, name, obs):
    path = os.path.join(wd, name + ".trace.ndjson")
    n = 0
    for lo in range(0, len(obs), 6000):
        part = obs[lo:lo + 6000]
        write_ndjson(path, part)
        r = tlc("NamesTrace", "NamesTrace.cfg", workers=1, env={"TRACE": path}, dfs=True, timeout=3000, xmx="12g")
        vlib.require_ok(r, name)
        v.transitions += r.generated
        rej = r.tagged_raw("REJECT")
        if r.violated and not rej:
            raise vlib.ToolError("trace not consumed: " + r.out[-1500:])
        for x in rej:
            o = part[int(x) - 1]
            v.violation("name constructor %s disagrees with the name specification" % o.get("op"), wc.shrink(o, 300))
        n += len(part)
    return n


def random_cases(r, n):
    out = []

    def lab():
        k = r.choice([1, 1, 2, 3, 5, 10, 62, 63, 64, 70])
        alphabet = r.choice([list(range(97, 123)), list(range(65, 91)), list(range(33, 127)),
                             list(range(65, 91)) + [200, 233, 255], list(range(0, 256))])
        return [r.choice(alphabet) for _ in range(k)]
    for _ in range(n):
        x = r.random()
        labels = [lab() for _ in range(r.choice([0, 1, 2, 3, 4, 5, 8]))]
        if x < 0.3:
            c = r.random()
            ls = labels + ([[]] if c < 0.7 else [])
            if c > 0.9 and ls:
                ls.insert(r.randrange(len(ls) + 1), [])
            out.append({"op": "from_labels", "labels": ls})
        elif x < 0.7:
            # text: ASCII (no control) with dots placed at random, sometimes doubled / leading / missing at the end
            parts = []
            for _l in range(r.choice([0, 1, 2, 3, 4, 6])):
                k = r.choice([0, 1, 1, 2, 5, 30, 63, 64])
                parts.append("".join(chr(r.choice(list(range(33, 46)) + list(range(47, 127)))) for _ in range(k)))
            s = ".".join(parts)
            if r.random() < 0.7:
                s += "."
            if r.random() < 0.1:
                s = "." + s
            if r.random() < 0.1:
                s = s.replace("a", "é").replace("B", "Ü")
            out.append({"op": "from_dotted", "s": list(s.encode("utf-8"))})
        elif x < 0.85:
            good = [[l for l in lb if l != 46][:63] or [97] for lb in labels[:3]]
            origin = [[c for c in lb if c < 128 and c != 46][:20] or [120] for lb in labels[3:5]] + [[]]
            s = ".".join("".join(chr(c) if 33 <= c < 127 and c != 46 else "x" for c in lb) for lb in good)
            if r.random() < 0.3:
                s += "."
            # relative text with an empty label inside, in front or alone ("a..b", ".a", "..", "."): never a name
            y = r.random()
            if y < 0.12 and "." in s:
                i = s.index(".")
                s = s[:i] + "." + s[i:]
            elif y < 0.18:
                s = "." + s
            elif y < 0.22:
                s = r.choice(["..", ".", "a..", "a..b", "www..internal", "a.b..c.d"])
            out.append({"op": "from_relative", "origin": origin, "s": list(s.encode("utf-8"))})
        else:
            ok = [[c for c in lb][:63] for lb in labels if lb][:4]
            while sum(len(l) + 1 for l in ok) + 1 > 255:
                ok.pop()
            k = r.randint(0, len(ok))
            a = ok[:k] + [[]]
            b = ok[k:] + [[]]
            out.append({"op": "make_subdomain", "a": a, "b": b})
            out.append({"op": "is_subdomain", "a": ok + [[]], "b": b})
            out.append({"op": "is_subdomain", "a": a, "b": b})
    return out


def run(tier):
    v = Verdict(PID, tier, "model_checking")
    v.rule = ("MC: every vector of up to MaxLabels label lengths from the boundary set (1, 2, 61..64) in six character "
              "classes (lower, upper, digit, high-bit, mixed upper + high-bit, UTF-8): name specification checked "
              "against itself and against the wire specification; GEN: for every vector the constructor calls "
              "(from_labels, from_dotted_string with / without final dot / with an empty label, "
              "from_relative_dotted_string, make_subdomain_of, is_subdomain_of) replayed into the real code, each "
              "with a differently-cased second spelling used for ==, hash, Zones::get and SharedCache::get; TV: seeded "
              "random constructor calls and names decoded from wire corpora. An evaluation is one constructor call or "
              "decoded message; distinct = distinct calls.")
    v.assumptions = ["text handed to from_dotted_string is valid UTF-8 (it is a &str)",
                     "labels reach from_labels only through Label::try_from (the only public way to build a non-empty label)"]
    wd = workdir("c16")
    vlib.build_harness()
    r_ = rng(16)
    # --- MC
    full = dict(maxlabels=5, lens="{1, 2, 61, 62, 63, 64}", gen="")
    r = tlc("MCNames", None, cfg_text=CFG % full, timeout=3400)
    vlib.require_ok(r, "MCNames")
    v.add_tlc(r)
    if r.violated:
        v.violation("model: %s violated" % r.violated, {"tlc_output": r.out[-3000:]})
    v.exhaustive = True
    # --- GEN
    g = dict(maxlabels=4, lens="{1, 61, 62, 63, 64}" if tier == "quick" else "{1, 2, 61, 62, 63, 64}", gen="Inv_Gen")
    r = tlc("MCNames", None, cfg_text=CFG % g, timeout=3400, xmx="16g")
    vlib.require_ok(r, "MCNames gen")
    cases = r.tagged("GENNAME")
    seen = set()
    uniq = []
    for c in cases:
        k = repr(c)
        if k not in seen:
            seen.add(k)
            uniq.append(c)
    inp = os.path.join(wd, "gen.in.ndjson")
    out = os.path.join(wd, "gen.out.ndjson")
    write_ndjson(inp, uniq)
    vh(["names", inp, out])
    obs = read_ndjson(out)
    for o in obs:
        if o.get("ev") == "panic":
            v.violation("name constructor panicked", wc.shrink(o["in"], 300))
    good = [o for o in obs if o.get("ev") != "panic"]
    v.traces += validate_names(v, wd, "gen", good)
    v.evaluations += len(good)
    v.notes["gen_calls"] = len(good)
    v.notes["gen_accepted"] = sum(1 for o in good if isinstance(o.get("out"), dict) and o["out"].get("ok"))
    v.sample(wc.shrink(good[len(good) // 3], 40))
    # --- TV: random constructor calls
    rc = random_cases(r_, 4000 if tier == "quick" else 40000)
    inp = os.path.join(wd, "tv.in.ndjson")
    out = os.path.join(wd, "tv.out.ndjson")
    write_ndjson(inp, rc)
    vh(["names", inp, out])
    obs = read_ndjson(out)
    for o in obs:
        if o.get("ev") == "panic":
            v.violation("name constructor panicked", wc.shrink(o["in"], 300))
    good = [o for o in obs if o.get("ev") != "panic"]
    v.traces += validate_names(v, wd, "tv", good)
    v.evaluations += len(good)
    v.notes["tv_calls"] = len(good)
    v.notes["tv_accepted"] = sum(1 for o in good if isinstance(o.get("out"), dict) and o["out"].get("ok"))
    # --- TV: names out of the wire decoder (well-formed, lower-cased, pointers expanded)
    corpus = wc.valid_corpus(r_, wd, 200 if tier == "quick" else 2000)
    inputs = list(wc.adversarial(deep_for_tlc=False)) + corpus[:100]
    for b in corpus:
        m = bytearray(b)
        for i in range(12, len(m)):
            if 97 <= m[i] <= 122 and r_.random() < 0.5:
                m[i] -= 32                      # upper-case spelling on the wire
            elif r_.random() < 0.02:
                m[i] = r_.choice([200, 233, 255, 63, 64])
        inputs.append(bytes(m))
    items = [{"bytes": b.hex()} for b in inputs]
    obs, crashes = wc.run_harness_lines("wire-decode", os.path.join(wd, "w.in"), os.path.join(wd, "w.out"), items)
    good = [o for o in obs if o.get("ev") == "decode"]
    v.traces += wc.validate(v, PID, wd, "wire", good)
    v.evaluations += len(good)
    v.notes["wire_inputs"] = len(good)
    v.notes["wire_accepted"] = sum(1 for o in good if o["res"]["ok"])
    v.distinct = v.evaluations
    return v.finish()
