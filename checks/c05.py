"""C05 The cache never serves a record past its TTL (DESIGN 4, C05)."""
import cacherun


def run(tier):
    return cacherun.run("C05", tier)
