"""C09 The server answers every message correctly framed and never goes down (DESIGN 4, C09)."""
import json
import os
import threading

import c12
import rescommon as rc
import serverdrv as sd
import vlib
import wirecommon as wc
from vlib import Verdict, tlc, workdir, rng, write_ndjson

PID = "C09"

CFG = """SPECIFICATION Spec
CONSTANTS
  BuggyF1 = FALSE
  Limit = 32
INVARIANTS Inv_C09_Sane Inv_Gen
CHECK_DEADLOCK FALSE
"""


def test_zones():
    lan = ["lan"]
    recs = [rc.rr(["www"] + lan, "A", "10.0.0.2"), rc.rr(["www"] + lan, "A", "10.0.0.3"), rc.rr(["www"] + lan, "TXT", "x6869"),
            rc.rr(["alias"] + lan, "CNAME", "alias2.lan.", ["alias2"] + lan), rc.rr(["alias2"] + lan, "CNAME", "www.lan.", ["www"] + lan),
            rc.rr(["sub"] + lan, "NS", "ns.sub.lan.", ["ns", "sub"] + lan), rc.rr(["mail"] + lan, "MX", "10 www.lan.", ["www"] + lan),
            rc.rr(["w"] + lan, "A", "10.0.0.9", wild=True)]
    for i in range(40):
        recs.append(rc.rr(["big"] + lan, "TXT", "x" + ("%02x" % (i % 256)) * 40))
    for i in range(70):
        recs.append(rc.rr(["huge"] + lan, "TXT", "x" + ("%02x" % (i % 256)) * 1000))
    z = rc.zone(lan, recs, auth=True, minimum=60)
    root = rc.zone([], [rc.rr(["hosts", "example"], "A", "10.7.7.7", ttl=5), rc.rr(["blocked", "example"], "A", "0.0.0.0", ttl=5)],
                   auth=False)
    return [root, z]


def write_config(wd, zones):
    paths = []
    for i, z in enumerate(zones):
        p = os.path.join(wd, "zone-%d.zone" % i)
        with open(p, "w") as f:
            f.write(c12.render_zone(z))
        paths.append(p)
    return paths


def fire(server, reqs, transport, out, lock, probe_all=False):
    for r in reqs:
        data = bytes(r["req"])
        if transport == "udp":
            rep = sd.udp_exchange(server.port, data, wait=0.25, probe=probe_all)
            ev = {"ev": "exchange", "udp": True, "req": list(data), "tcp_declared": 0, "reply": rep, "alive": server.alive()}
        else:
            declared = r.get("declared", len(data))
            rep = sd.tcp_exchange(server.port, data, declared=declared)
            ev = {"ev": "exchange", "udp": False, "req": list(data), "tcp_declared": declared, "reply": rep,
                  "alive": server.alive()}
        ev["reply"] = {"present": rep["present"], "bytes": rep["bytes"], "prefix": rep["prefix"], "extra": rep["extra"]}
        with lock:
            out.append(ev)


def run_server_trace(v, wd, name, mode, zones, requests, extra_args, threads=6):
    """requests: list of {req:[octets], transport, declared?}. Returns the trace events."""
    paths = write_config(wd, zones)
    args = list(extra_args)
    for p in paths:
        args += ["-z", p]
    server = sd.Server(wd, args)
    events, lock = [], threading.Lock()
    try:
        chunks = [requests[i::threads] for i in range(threads)]
        ths = []
        for ch in chunks:
            for transport in ("udp", "tcp"):
                part = [r for r in ch if r["transport"] == transport]
                t = threading.Thread(target=fire, args=(server, part, transport, events, lock))
                t.start()
                ths.append(t)
        for t in ths:
            t.join()
        final = sd.udp_exchange(server.port, sd.PROBE, wait=1.0)
        still = server.alive() and final["present"]
    finally:
        log = server.log_text()
        server.stop()
    if not still:
        v.violation("the server stopped serving (process dead or no answer to a probe)", {"mode": mode, "log_tail": log[-3000:]})
    if "panicked" in log:
        v.violation("a server task panicked", {"mode": mode, "log_tail": log[log.index("panicked") - 500:][:3000]})
    cfg = sd.config_line(zones, mode)
    return cfg, events


def validate(v, wd, name, cfg, events):
    path = os.path.join(wd, name + ".trace.ndjson")
    # big replies make big lines: validate in chunks, each starting with the config line
    small = [e for e in events if len(e["reply"]["bytes"]) <= 2000 and len(e["req"]) <= 2000]
    large = [e for e in events if e not in small]
    for part in [small[i:i + 1500] for i in range(0, len(small), 1500)] + [large[i:i + 40] for i in range(0, len(large), 40)]:
        if not part:
            continue
        write_ndjson(path, [cfg] + part)
        r = tlc("ServerTrace", "ServerTrace.cfg", workers=1, env={"TRACE": path}, dfs=True, timeout=3400, xmx="14g")
        vlib.require_ok(r, name)
        v.transitions += r.generated
        rej = r.tagged_raw("REJECT")
        if r.violated and not rej:
            raise vlib.ToolError("trace not consumed: " + r.out[-1500:])
        for x in rej:
            i, why0 = [y.strip().strip('"') for y in x.split(",")]
            why, _, fp = why0.partition(":")
            e = part[int(i) - 2]
            v.violation("the server's reaction to a message is not the one C09 demands",
                        {"mode": cfg["mode"], "transport": "udp" if e["udp"] else "tcp", "request_hex": bytes(e["req"]).hex()[:4000],
                         "tcp_declared": e["tcp_declared"], "reply_present": e["reply"]["present"],
                         "reply_hex": bytes(e["reply"]["bytes"]).hex()[:4000], "reply_len": len(e["reply"]["bytes"]),
                         "prefix": e["reply"]["prefix"], "alive": e["alive"]}, fingerprint=fp or None)
        v.traces += len(part)
    v.evaluations += len(events)


def run(tier):
    v = Verdict(PID, tier, "model_checking")
    v.rule = ("MC/GEN: TLC enumerates every request over QR x opcode {0,1,2,15} x RD x AA/RA/RCODE bits x 0..2 "
              "questions x six kinds of name x five types x three classes, every truncation of each to 0..13 octets "
              "and each with a garbage octet appended, computes the expected reaction (module Server) and prints the "
              "octets; all of them are sent to the real binary over UDP and over TCP (also with a length prefix longer "
              "than the message and an early close), interleaved from several client threads; TV: C03's adversarial "
              "and mutation corpus fired at the server in authoritative-only and forwarding mode. Every reply (or "
              "absence of one, confirmed by a later probe on the same socket) is decoded and validated by TLC. An "
              "evaluation is one message sent.")
    v.assumptions = ["black box: the release binary built from /repo, no hooks; real sockets on loopback",
                     "content (sections, AA, RCODE) is checked in authoritative-only mode, where it is a function of the "
                     "zones; in forwarding mode only the framing, header, echo and alias-chain rules are checked (A4)"]
    wd = workdir("c09")
    vlib.build_repo_bins()
    r_ = rng(9)
    zones = test_zones()
    cfg = sd.config_line(zones, "auth")
    cfgpath = os.path.join(wd, "config.ndjson")
    write_ndjson(cfgpath, [cfg])
    r = tlc("MCServer", None, cfg_text=CFG, env={"CONFIG": cfgpath}, timeout=3400, xmx="16g")
    vlib.require_ok(r, "MCServer")
    v.add_tlc(r)
    if r.violated:
        v.violation("model: %s violated" % r.violated, {"tlc_output": r.out[-3000:]})
    v.exhaustive = True
    gens = r.tagged("GENREQ")
    seen, reqs = set(), []
    for g in gens:
        k = bytes(g["req"])
        if k in seen:
            continue
        seen.add(k)
        reqs.append({"req": g["req"], "transport": "udp"})
        reqs.append({"req": g["req"], "transport": "tcp"})
        if len(g["req"]) >= 1 and r_.random() < 0.15:
            reqs.append({"req": g["req"], "transport": "tcp", "declared": len(g["req"]) + r_.choice([1, 5, 400])})
    if tier == "quick":
        r_.shuffle(reqs)
        keep = [x for x in reqs if len(x["req"]) < 14] + reqs[:2500]
        reqs = keep
    # TCP messages shorter than their length prefix says (the client stops sending and half-closes): every short body
    # length around the ID (0, 1, 2, 3 octets) and the header (11, 12), against several announced lengths
    whole = q_full = list(bytes.fromhex("abcd01000001000000000000") + b"\x03www\x03lan\x00\x00\x01\x00\x01")
    for n in (0, 1, 2, 3, 11, 12, 13, len(whole) - 1):
        for declared in (2, 3, 12, 40, 400, 65535):
            if declared > n:
                reqs.append({"req": whole[:n], "transport": "tcp", "declared": declared})
    v.notes["gen_messages"] = len(reqs)
    # plus: the large answers over both transports
    def q(name, t):
        return list(bytes.fromhex("777701000001000000000000") + b"".join(bytes([len(l)]) + l.encode() for l in name) + b"\x00" + bytes([0, t, 0, 1]))
    for nm in (["big", "lan"], ["huge", "lan"], ["www", "lan"], ["x", "w", "lan"], ["alias", "lan"]):
        for t in (16, 1, 255):
            reqs.append({"req": q(nm, t), "transport": "udp"})
            reqs.append({"req": q(nm, t), "transport": "tcp"})
    cfg, events = run_server_trace(v, wd, "auth", "auth", zones, reqs, ["--authoritative-only"])
    validate(v, wd, "auth", cfg, events)
    v.notes["auth_replies"] = sum(1 for e in events if e["reply"]["present"])
    v.notes["auth_no_reply"] = sum(1 for e in events if not e["reply"]["present"])
    # --- TV: adversarial / mutated octets, authoritative-only and forwarding (upstream: nothing listens -> SERVFAIL quickly)
    corpus = wc.valid_corpus(r_, wd, 120)
    import c03
    raw = list(wc.adversarial(deep_for_tlc=False)) + c03.mutations(r_, corpus, 1500 if tier == "quick" else 30000)
    raw = [b for b in raw if len(b) <= 3000]
    reqs = []
    for b in raw:
        if len(b) <= 512:
            reqs.append({"req": list(b), "transport": "udp"})
        reqs.append({"req": list(b), "transport": "tcp"})
    cfg, events = run_server_trace(v, wd, "fuzz", "auth", zones, reqs, ["--authoritative-only"])
    validate(v, wd, "fuzz", cfg, events)
    up = sd.MockUpstream({}, behaviour="table")
    try:
        cfg, events = run_server_trace(v, wd, "fwd", "forwarding", zones, reqs[: (600 if tier == "quick" else 6000)],
                                       ["--forward-address", "127.0.0.1:%d" % up.port])
    finally:
        up.stop()
    validate(v, wd, "fwd", cfg, events)
    v.notes["fuzz_messages"] = len(reqs)
    v.distinct = v.evaluations
    if events:
        e = events[0]
        v.sample({"request_hex": bytes(e["req"]).hex()[:200], "reply_hex": bytes(e["reply"]["bytes"]).hex()[:200]})
    return v.finish()
