"""C11 A zone file means what RFC 1035 section 5 says it means (DESIGN 4, C11)."""
import json
import os

import gen
import vlib
import ztcommon as zt
from vlib import Verdict, tlc, workdir, rng

PID = "C11"


def norm_expected(e):
    """the model's Expected value (ToJson of a ParseZone-shaped record) in the harness's dump notation"""
    if not e["ok"]:
        return {"ok": False}
    recs = []
    for r in e["recs"]:
        recs.append({"name": r["name"], "wild": r["wild"], "type": r["type"], "ttl": str(r["ttl"]), "names": r["names"],
                     "nums": [str(x) for x in r["nums"]], "raw": r["raw"], "addr": r["addr"]})
    recs.sort(key=lambda x: json.dumps(x, sort_keys=True))
    d = {"ok": True, "apex": e["apex"], "auth": e["auth"], "recs": recs}
    if e["auth"]:
        d["soa"] = {"names": e["soa"]["names"], "nums": [str(x) for x in e["soa"]["nums"]]}
    return d


def norm_dump(o):
    if not o["ok"]:
        return {"ok": False}
    recs = sorted(o["recs"], key=lambda x: json.dumps(x, sort_keys=True))
    d = {"ok": True, "apex": o["apex"], "auth": o["auth"], "recs": recs}
    if o["auth"]:
        d["soa"] = o["soa"]
    return d


def run(tier):
    v = Verdict(PID, tier, "model_checking")
    v.rule = ("MC: a generative grammar renders zone files entry by entry (owner absolute / relative / @ / omitted / "
              "wildcard x TTL-class order and omission x record types with quoted strings and \\\\X, \\\\DDD escapes x "
              "plain / commented / parenthesised / tight-parenthesis layout, plus seven single-fault entries) and carries "
              "the denotation; ParseZone(text) = denotation (or rejection) is checked in every state; GEN: every rendered "
              "text through Zone::deserialise, compared with the denotation; TV: seeded renderings of random record "
              "sets over all supported types and single-fault corruptions, and the repository's own zone files, "
              "validated by TLC reading the same text. An evaluation is one file; distinct = distinct files.")
    v.assumptions = ["I3: owners that look like a TTL, a class or a type mnemonic are not generated",
                     "address literals are resolved through a dictionary supplied by the generator",
                     "numbers of more than 9 digits are outside what TLC decides (counted as 'big')"]
    wd = workdir("c11")
    vlib.build_harness()
    r_ = rng(11)
    # --- MC + GEN
    entries = 2 if tier == "quick" else 3
    r = tlc("MCZoneText", None, cfg_text=zt.MC_CFG % dict(entries=entries, gen=""), timeout=3400, xmx="16g")
    vlib.require_ok(r, "MCZoneText")
    v.add_tlc(r)
    if r.violated:
        v.violation("model: the parser model disagrees with the grammar's denotation (%s)" % r.violated,
                    {"tlc_output": r.out[-3000:]})
    v.exhaustive = True
    r = tlc("MCZoneText", None, cfg_text=zt.MC_CFG % dict(entries=1 if tier == "quick" else 2, gen="Inv_Gen"),
            timeout=3400, xmx="16g")
    vlib.require_ok(r, "MCZoneText gen")
    gens = r.tagged("GENZONETEXT")
    lits = [{"tok": zt.cps("10.0.0.1"), "v": 4, "canon": "10.0.0.1"}, {"tok": zt.cps("10.0.0.2"), "v": 4, "canon": "10.0.0.2"}]
    cases = [{"mode": "text", "text": g["text"], "lits": lits, "claim": True} for g in gens]
    good, panics, rejects, nbig = zt.run_cases(v, wd, "gen", cases)
    for o in panics:
        v.violation("zone parser panicked", {"text": "".join(chr(c) for c in o["in"]["text"])})
    bytext = {json.dumps(o["text"]): o for o in good}
    nfault = 0
    for g in gens:
        o = bytext.get(json.dumps(g["text"]))
        if o is None:
            continue
        v.evaluations += 1
        if g["faulty"]:
            nfault += 1
            if o["out"]["ok"]:
                v.violation("a file with a single fault was loaded instead of being rejected",
                            {"text": "".join(chr(c) for c in g["text"]), "out": o["out"]})
        elif norm_dump(o["out"]) != norm_expected(g["expected"]):
            v.violation("Zone::deserialise does not yield the records the file denotes",
                        {"text": "".join(chr(c) for c in g["text"]), "denotation": norm_expected(g["expected"]),
                         "real": norm_dump(o["out"])})
    for idx, why in rejects:
        if why == "parse":
            v.violation("the real parser and the specification's parser read a grammar-generated file differently",
                        zt.show(good[idx]))
    v.traces += len(good)
    v.notes["gen_files"] = len(gens)
    v.notes["gen_fault_files"] = nfault
    # --- TV
    cases = []
    for i in range(1500 if tier == "quick" else 12000):
        cases.append(zt.text_case(gen.zt_file(r_), True))
    for i in range(600 if tier == "quick" else 5000):
        cases.append(zt.text_case(gen.zt_file(r_, r_.choice(gen.ZT_FAULTS)), True))
    for t in zt.repo_zone_files():
        cases.append(zt.text_case(t, True))
    good, panics, rejects, nbig = zt.run_cases(v, wd, "tv", cases)
    for o in panics:
        v.violation("zone parser panicked", {"text": "".join(chr(c) for c in o["in"]["text"])})
    for idx, why in rejects:
        if why == "parse":
            v.violation("the real parser and the specification's parser read a well-formed (or single-fault) file differently",
                        zt.show(good[idx]))
        else:
            v.notes["roundtrip_rejections_see_C13"] = v.notes.get("roundtrip_rejections_see_C13", 0) + 1
    v.traces += len(good)
    v.evaluations += len(good)
    v.notes["tv_files"] = len(good)
    v.notes["tv_accepted"] = sum(1 for o in good if o["out"]["ok"])
    v.notes["tv_rejected"] = sum(1 for o in good if not o["out"]["ok"])
    v.notes["tv_big_numbers_skipped"] = nbig
    if good:
        v.sample(zt.show(good[3]))
    v.distinct = v.evaluations
    if v.notes["tv_accepted"] == 0 or v.notes["tv_rejected"] == 0:
        raise vlib.ToolError("vacuous TV run")
    return v.finish()
