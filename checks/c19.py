"""C19 Reload swaps the whole configuration or none of it (DESIGN 4, C19)."""
import os
import threading
import time

import c12
import rescommon as rc
import serverdrv as sd
import vlib
import wirecommon as wc
from vlib import Verdict, tlc, workdir, rng, write_ndjson

PID = "C19"

MC_CFG = """SPECIFICATION Spec
CONSTANTS
  Files = {"a", "b"}
  Versions = {1, 2}
  Clients = %(clients)s
  MaxEdits = %(edits)d
  MaxSignals = %(signals)d
INVARIANTS Inv_C19_Atomic Inv_C19_Whole Inv_C19_Fresh
PROPERTIES Prop_C19_AllOrNothing Prop_C19_Live Prop_C19_Converges
CHECK_DEADLOCK FALSE
"""


def zone_a(va):
    lan = ["lan"]
    return rc.zone(lan, [rc.rr(["www"] + lan, "A", "10.0.%d.1" % va), rc.rr(["www"] + lan, "A", "10.0.%d.2" % va),
                         rc.rr(["alias"] + lan, "CNAME", "t%d.other." % va, ["t%d" % va, "other"]),
                         rc.rr(["gone%d" % va] + lan, "TXT", "x%02x" % va)], auth=True, minimum=60)


def recs_b(vb):
    return [rc.rr(["t%d" % k, "other"], "A", "10.1.%d.%d" % (vb, k)) for k in range(1, 9)] + \
           [rc.rr(["b", "other"], "A", "10.2.%d.1" % vb)]


def recs_c(vc):
    return [rc.rr(["extra", "other"], "A", "10.3.%d.1" % vc), rc.rr(["t9", "other"], "A", "10.3.%d.9" % vc)]


def question(name, qtype=1, qid=0):
    return bytes([qid >> 8, qid & 255, 1, 0, 0, 1, 0, 0, 0, 0, 0, 0]) + b"".join(bytes([len(l)]) + l.encode() for l in name) + \
        b"\x00" + bytes([0, qtype, 0, 1])


QUESTIONS = [(["alias", "lan"], 1), (["www", "lan"], 1), (["extra", "other"], 1), (["t1", "other"], 1), (["alias", "lan"], 255),
             (["gone1", "lan"], 16), (["gone2", "lan"], 16), (["b", "other"], 1), (["extra", "other"], 255), (["t9", "other"], 255),
             (["b", "other"], 255), (["t9", "other"], 1)]


class Disk:
    """the configuration directory and the bookkeeping of which (valid) configuration it amounts to"""

    def __init__(self, base):
        self.base = base
        # the zone directory is reached through a symbolic link (current -> dir.v<n>), as deployments that publish a
        # new configuration by re-pointing a link do
        self.dirv = 1
        os.makedirs(os.path.join(base, "dir.v1"), exist_ok=True)
        if not os.path.lexists(os.path.join(base, "dir")):
            os.symlink("dir.v1", os.path.join(base, "dir"))
        self.va, self.vb, self.vc = 1, 1, 0          # vc = 0: no c file
        self.bad = None
        self.ids = {}
        self.configs = []
        self.write_all()

    def path(self, f):
        return os.path.join(self.base, "a.zone") if f == "a" else os.path.join(self.base, "dir", f + ".zone")

    def put(self, f, text):
        tmp = os.path.join(self.base, ".tmp-" + f)
        with open(tmp, "w") as fh:
            fh.write(text)
        os.replace(tmp, self.path(f))              # atomic: the server never sees half a file

    def write_all(self):
        self.put("a", c12.render_zone(zone_a(self.va)))
        self.put("b", c12.render_zone(rc.zone([], recs_b(self.vb), auth=False)))
        if self.vc:
            self.put("c", c12.render_zone(rc.zone([], recs_c(self.vc), auth=False)))
        elif os.path.lexists(self.path("c")):
            os.remove(self.path("c"))

    def config_id(self):
        """id of the configuration on disk (0 when some file is unreadable or invalid)"""
        if self.bad:
            return 0
        key = (self.va, self.vb, self.vc)
        if key not in self.ids:
            zones = [zone_a(self.va), rc.zone([], recs_b(self.vb) + (recs_c(self.vc) if self.vc else []), auth=False)]
            cfg = sd.config_line(zones, "auth")
            self.ids[key] = len(self.ids) + 1
            self.configs.append({"id": self.ids[key], "zones": cfg["zones"], "rdmap": cfg["rdmap"]})
        return self.ids[key]

    def edit(self, r):
        """one configuration edit; returns a description"""
        if self.bad:
            kind, f = self.bad
            self.bad = None
            for extra in ("zz-dangling.zone",):
                p = os.path.join(self.base, "dir", extra)
                if os.path.lexists(p):
                    os.remove(p)
            self.write_all()
            return "repair " + kind
        kinds = ["change_a", "change_b", "add_c", "corrupt_a", "change_c", "repoint", "dangling", "remove_c", "corrupt_b",
                 "delete_a", "garbage_c", "change_a", "repoint", "change_b"]
        self.nedits = getattr(self, "nedits", 0) + 1
        # every kind of edit occurs in every schedule; beyond that the choice is random
        k = kinds[self.nedits - 1] if self.nedits <= len(kinds) and r.random() < 0.8 else r.choice(kinds)
        if k == "change_a":
            self.va = self.va % 8 + 1
        elif k == "change_b":
            self.vb = self.vb % 5 + 1
        elif k in ("add_c", "change_c"):
            self.vc = self.vc % 3 + 1
        elif k == "remove_c":
            self.vc = 0
        elif k == "repoint":
            # a new directory with the next version of its files, published by atomically re-pointing the link
            import shutil
            self.vb = self.vb % 5 + 1
            self.dirv += 1
            new = os.path.join(self.base, "dir.v%d" % self.dirv)
            os.makedirs(new, exist_ok=True)
            with open(os.path.join(new, "b.zone"), "w") as fh:
                fh.write(c12.render_zone(rc.zone([], recs_b(self.vb), auth=False)))
            if self.vc:
                with open(os.path.join(new, "c.zone"), "w") as fh:
                    fh.write(c12.render_zone(rc.zone([], recs_c(self.vc), auth=False)))
            tmp = os.path.join(self.base, ".tmp-link")
            if os.path.lexists(tmp):
                os.remove(tmp)
            os.symlink("dir.v%d" % self.dirv, tmp)
            os.replace(tmp, os.path.join(self.base, "dir"))
            return k
        elif k == "corrupt_a":
            self.bad = (k, "a")
            self.put("a", c12.render_zone(zone_a(self.va % 8 + 1)) + "www.lan. 300 IN A not-an-address\n")
            return k
        elif k == "corrupt_b":
            self.bad = (k, "b")
            self.put("b", c12.render_zone(rc.zone([], recs_b(self.vb % 5 + 1), auth=False)) + "$INCLUDE other.zone\n")
            return k
        elif k == "garbage_c":
            self.bad = (k, "c")
            self.put("c", "extra.other. 300 IN A 10.3.9.1\n( unbalanced \"\n\\")
            self.put("c", "extra.other. 300 IN A 10.3.9.1\nt9.other. IN A\n")
            return k
        elif k == "delete_a":
            self.bad = (k, "a")
            os.remove(self.path("a"))
            return k
        elif k == "dangling":
            self.bad = (k, "dir")
            os.symlink(os.path.join(self.base, "does-not-exist"), os.path.join(self.base, "dir", "zz-dangling.zone"))
            return k
        self.write_all()
        return k


def run_schedule(v, wd, r, nreloads, with_fifo, mode="auth"):
    base = os.path.join(wd, "cfg")
    if os.path.isdir(base):
        import shutil
        shutil.rmtree(base)
    os.makedirs(base, exist_ok=True)
    disk = Disk(base)
    upstream = None
    if mode == "auth":
        server = sd.Server(wd, ["--authoritative-only", "-z", disk.path("a"), "-Z", os.path.join(base, "dir")])
    else:
        # a forwarding resolver whose forwarder answers every question with an empty NOERROR reply: what the
        # configuration contributes is the whole reply, so every reply is still a function of the configuration in force
        upstream = sd.MockUpstream({}, behaviour="empty")
        server = sd.Server(wd, ["--forward-address", "127.0.0.1:%d" % upstream.port, "-z", disk.path("a"),
                                "-Z", os.path.join(base, "dir")])
    events = []
    lock = threading.Lock()
    seq = [0]
    stop = [False]
    qcount = [0]

    def stamp():
        with lock:
            seq[0] += 1
            return seq[0]

    def client(tid):
        rr_ = __import__("random").Random(1000 + tid)
        while not stop[0]:
            name, qt = rr_.choice(QUESTIONS)
            with lock:
                qcount[0] += 1
                qid = qcount[0]
            req = question(name, qt, qid % 65536)
            s = stamp()
            with lock:
                events.append({"ev": "send", "seq": s, "qid": qid, "req": list(req), "reply": {"present": False, "bytes": []}, "ok": False, "disk": 0})
            rep = sd.udp_exchange(server.port, req, wait=1.0) if rr_.random() < 0.8 else sd.tcp_exchange(server.port, req, wait=1.0)
            s2 = stamp()
            with lock:
                events.append({"ev": "recv", "seq": s2, "qid": qid, "req": list(req),
                               "reply": {"present": rep["present"], "bytes": rep["bytes"]}, "ok": False, "disk": 0})
            time.sleep(rr_.choice([0, 0.001, 0.004]))

    initial = disk.config_id()
    threads = [threading.Thread(target=client, args=(i,), daemon=True) for i in range(2)]
    for t in threads:
        t.start()
    log_seen = 0
    fifo_done = False
    try:
        for k in range(nreloads):
            time.sleep(r.choice([0.01, 0.03]))
            fifo = with_fifo and k >= nreloads // 2 and not disk.bad and not fifo_done
            fifo_done = fifo_done or fifo
            what = disk.edit(r) if not fifo else "fifo"
            if fifo:
                # a slow reload: the explicit zone file is a named pipe that delivers its (new) content only after a while
                disk.va = disk.va % 8 + 1
                text = c12.render_zone(zone_a(disk.va))
                os.remove(disk.path("a"))
                os.mkfifo(disk.path("a"))

                def feed(text=text, p=disk.path("a")):
                    fd = os.open(p, os.O_WRONLY)          # blocks until the server opens the pipe
                    # the server now holds the pipe: put the same content at the path as a regular file, so that the
                    # second reload (below) does not wait on a pipe nobody feeds
                    disk.put("a", text)
                    time.sleep(3.0)
                    os.write(fd, text.encode())
                    os.close(fd)
                threading.Thread(target=feed, daemon=True).start()
            cid = disk.config_id()
            s = stamp()
            with lock:
                events.append({"ev": "signal", "seq": s, "qid": 0, "req": [], "reply": {"present": False, "bytes": []}, "ok": False,
                               "disk": cid, "what": what})
            server.signal_reload()
            if fifo:
                # a second SIGUSR1 while the first reload is still loading, after a further (atomic, one-file) edit:
                # the notification must not be lost - once the server is at rest the LAST signalled disk is in force
                # (Reload!Inv_C19_Fresh).  The first reload may have read b.zone before or after this edit.
                time.sleep(1.0)
                disk.vb = disk.vb % 5 + 1
                disk.put("b", c12.render_zone(rc.zone([], recs_b(disk.vb), auth=False)))
                cid2 = disk.config_id()
                s = stamp()
                with lock:
                    events.append({"ev": "signal", "seq": s, "qid": 0, "req": [], "reply": {"present": False, "bytes": []},
                                   "ok": False, "disk": cid2, "what": "change_b during the slow reload"})
                server.signal_reload()

            def wait_done(limit):
                nonlocal log_seen
                deadline = time.time() + limit
                while time.time() < deadline:
                    new = server.log_text()[log_seen:]
                    i1, i2 = new.find("done - success"), new.find("done - failure")
                    if i1 >= 0 or i2 >= 0:
                        ok_ = i1 >= 0 and (i2 < 0 or i1 < i2)
                        log_seen += (i1 if ok_ else i2) + 10
                        return ok_
                    time.sleep(0.005)
                return None

            def note_done(ok_):
                s_ = stamp()
                with lock:
                    events.append({"ev": "reload_done", "seq": s_, "qid": 0, "req": [], "reply": {"present": False, "bytes": []},
                                   "ok": ok_, "disk": 0})

            # wait for the server's own report
            ok = wait_done(15)
            if ok is None:
                v.violation("a reload was never reported done", {"edit": what, "log_tail": server.log_text()[-2000:]})
                break
            note_done(ok)
            if fifo:
                ok2 = wait_done(8)
                if ok2 is not None:
                    note_done(ok2)
                time.sleep(0.3)
                s = stamp()
                with lock:
                    events.append({"ev": "rest", "seq": s, "qid": 0, "req": [], "reply": {"present": False, "bytes": []},
                                   "ok": ok2 is not None, "disk": disk.config_id()})
                time.sleep(0.3)
            if fifo:
                disk.put("a", c12.render_zone(zone_a(disk.va)))
        time.sleep(0.05)
    finally:
        stop[0] = True
        for t in threads:
            t.join(timeout=5)
        alive = server.alive()
        log = server.log_text()
        server.stop()
        if upstream is not None:
            upstream.stop()
    if not alive:
        v.violation("the server died during the reload schedule", {"log_tail": log[-3000:]})
    events.sort(key=lambda e: e["seq"])
    # drop queries whose recv is missing (cut off at the end)
    got = {e["qid"] for e in events if e["ev"] == "recv"}
    events = [e for e in events if e["ev"] not in ("send",) or e["qid"] in got]
    return {"ev": "configs", "mode": mode, "initial": initial, "configs": disk.configs}, events


def run(tier):
    v = Verdict(PID, tier, "model_checking")
    v.rule = ("MC: every interleaving of file edits (new version / unreadable), SIGUSR1, the per-file loading steps of the "
              "reload task, the swap under the write-preferring RwLock and two clients' requests (2 files, 2 versions, "
              "<=MaxEdits edits, <=MaxSignals signals): each reply reflects one configuration current during the "
              "request, a failed load changes nothing, every request is eventually answered; TV: the real binary with "
              "a zone file and a zone directory: seeded schedules of edits (change / add / remove a file, corrupt a "
              "file, delete the explicit file, dangling entry in the directory, the directory - reached through a "
              "symbolic link - replaced by re-pointing the link, a named pipe that makes the reload slow) "
              "each followed by SIGUSR1, while two client threads query continuously; alias answers cross both files, so "
              "a mixed configuration would show in a single reply.  TLC validates the trace with the set of "
              "configurations possibly in force. The same in forwarding mode with a forwarder that answers every question "
              "with an empty reply (replies are then still a function of the configuration), with ANY questions for names the "
              "hosts-style files override. An evaluation is one query answered or one reload.")
    v.assumptions = ["A3: files are replaced atomically (rename) and not edited while a reload is loading",
                     "the success / failure of a reload is read from the server's log"]
    wd = workdir("c19")
    vlib.build_repo_bins()
    r_ = rng(19)
    mc = dict(clients='{"c1", "c2"}', edits=2, signals=2) if tier == "quick" else dict(clients='{"c1", "c2"}', edits=3, signals=3)
    r = tlc("Reload", None, cfg_text=MC_CFG % mc, timeout=3400, xmx="16g")
    vlib.require_ok(r, "Reload")
    v.add_tlc(r)
    if r.violated:
        v.violation("model: the reload model violates %s" % r.violated, {"tlc_output": r.out[-3000:]})
    v.exhaustive = True
    nsched, nreloads = (2, 22) if tier == "quick" else (12, 45)
    total_q = total_r = 0
    plan = [("auth", nreloads, i == 0) for i in range(nsched)] + [("fwd-empty", 16 if tier == "quick" else 40, False)] * (1 if tier == "quick" else 4)
    for sidx, (mode, nrel, fifo) in enumerate(plan):
        head, events = run_schedule(v, os.path.join(wd, "s%d" % sidx), r_, nrel, with_fifo=fifo, mode=mode)
        path = os.path.join(wd, "reload-%d.trace.ndjson" % sidx)
        write_ndjson(path, [head] + events)
        rr = tlc("ReloadTrace", "ReloadTrace.cfg", workers=1, env={"TRACE": path}, dfs=True, timeout=3400, xmx="14g")
        vlib.require_ok(rr, "ReloadTrace")
        v.transitions += rr.generated
        if not rr.ok:
            um = rr.tagged_raw("UNMATCHED")
            if not um:
                raise vlib.ToolError("reload trace rejected without diagnosis: " + rr.out[-1500:])
            k = int(um[0]) - 2
            bad = events[k]
            ctx = [{x: e[x] for x in e if x not in ("req", "reply")} for e in events[max(0, k - 12):k + 1]]
            v.violation("reload trace rejected at a %s event" % bad["ev"],
                        {"event": {x: bad[x] for x in bad if x != "req"}, "request_hex": bytes(bad["req"]).hex(),
                         "reply_hex": bytes(bad["reply"]["bytes"]).hex()[:1000], "preceding_events": ctx})
        v.traces += 1
        total_q += sum(1 for e in events if e["ev"] == "recv")
        total_r += sum(1 for e in events if e["ev"] == "reload_done")
        if sidx == 0:
            v.sample({"first_events": [{x: e[x] for x in e if x not in ("req", "reply")} for e in events[:12]]})
            v.notes["reload_outcomes_first_schedule"] = [[e.get("what", ""), ] for e in events if e["ev"] == "signal"][:20]
    v.notes["queries_answered"] = total_q
    v.notes["reloads"] = total_r
    v.evaluations = total_q + total_r
    v.distinct = v.evaluations
    if total_r < 5 or total_q < 50:
        raise vlib.ToolError("vacuous run")
    return v.finish()
