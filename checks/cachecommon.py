"""Machinery shared by C05 and C15 (cache): MC of CacheImpl, graph-walk replay, trace validation."""
import json
import os
from collections import defaultdict, deque

import vlib
from vlib import tlc, vh, write_ndjson, read_ndjson

MC_CFG = """SPECIFICATION Spec
CONSTANTS
  NameSet = %(names)s
  TypeSet = %(types)s
  DataSet = %(data)s
  TtlSet = %(ttls)s
  Desired = %(desired)d
  TickMs = %(tick)d
  Tmax = %(tmax)d
  BuggyF11 = FALSE
VIEW view
%(extra)s
CHECK_DEADLOCK FALSE
"""

INVS = "INVARIANTS Inv_C15_Counts Inv_C15_NextExpiry Inv_C15_Terminates\nPROPERTIES Prop_C05_C15_Refines"


def mc(v, tier):
    """exhaustive check of the code-shaped model against the user-level relations"""
    cfgs = [dict(names='{"n1", "n2"}', types='{"A", "B"}', data='{"d1"}', ttls="{0, 1, 2}", desired=2, tick=500,
                 tmax=3000, extra=INVS)]
    if tier == "thorough":
        cfgs += [dict(names='{"n1", "n2"}', types='{"A", "B"}', data='{"d1"}', ttls="{0, 1, 2}", desired=1, tick=500,
                      tmax=3500, extra=INVS),
                 # several records of one type under one name (record sets with more than one member)
                 dict(names='{"n1", "n2"}', types='{"A"}', data='{"d1", "d2"}', ttls="{0, 1, 2}", desired=1,
                      tick=500, tmax=3000, extra=INVS)]
    for c in cfgs:
        r = tlc("CacheImpl", None, cfg_text=MC_CFG % c, timeout=3000, workers=max(2, vlib.NCPU - 4))
        vlib.require_ok(r, "CacheImpl")
        v.add_tlc(r)
        if r.violated:
            yield r


def edges(tier):
    """every transition of a GEN-sized CacheImpl model, as (from, op, to)"""
    c = dict(names='{"n1", "n2"}', types='{"TXT", "HINFO"}', data='{"x01"}', ttls="{1, 2}", desired=1,
             tick=1000, tmax=2000, extra="ACTION_CONSTRAINT Dump")
    r = tlc("CacheImpl", None, cfg_text=MC_CFG % c, timeout=3000, workers=max(2, vlib.NCPU - 4), xmx="12g")
    vlib.require_ok(r, "CacheImpl edges")
    es = []
    for raw in r.tagged("EDGE"):
        es.append((json.dumps(raw["from"], sort_keys=True), raw["op"], json.dumps(raw["to"], sort_keys=True)))
    return es, c["desired"], r


def covering_walks(es):
    """op sequences (segments starting at the initial state) that traverse every edge at least once"""
    adj = defaultdict(list)
    for i, (a, op, b) in enumerate(es):
        adj[a].append(i)
    init = es[0][0]
    for a, op, b in es:
        if '{}' in a and a.endswith(', 0, 0]'):
            init = a
            break
    covered = [False] * len(es)
    remaining = defaultdict(int)
    for a in adj:
        remaining[a] = len(adj[a])
    ncov = 0
    segments = []
    cur = init
    seg = []
    ptr = defaultdict(int)

    def next_uncovered(s):
        lst = adj.get(s, [])
        while ptr[s] < len(lst) and covered[lst[ptr[s]]]:
            ptr[s] += 1
        return lst[ptr[s]] if ptr[s] < len(lst) else None

    def path_to_uncovered(s):
        # BFS over edges to the nearest state with an uncovered outgoing edge
        prev = {s: None}
        dq = deque([s])
        while dq:
            x = dq.popleft()
            if next_uncovered(x) is not None:
                p = []
                while prev[x] is not None:
                    e = prev[x]
                    p.append(e)
                    x = es[e][0]
                return list(reversed(p))
            for e in adj.get(x, []):
                y = es[e][2]
                if y not in prev:
                    prev[y] = e
                    dq.append(y)
        return None

    while ncov < len(es):
        e = next_uncovered(cur)
        if e is None:
            p = path_to_uncovered(cur)
            if p is None:
                segments.append(seg)
                seg = []
                cur = init
                p = path_to_uncovered(cur)
                if p is None:
                    break
            for e2 in p:
                seg.append(es[e2][1])
                cur = es[e2][2]
            continue
        covered[e] = True
        ncov += 1
        seg.append(es[e][1])
        cur = es[e][2]
        if len(seg) > 4000:
            segments.append(seg)
            seg = []
            cur = init
    if seg:
        segments.append(seg)
    return segments


def model_op_to_harness(op, tick):
    k = op["kind"]
    if k == "insert":
        return {"op": "insert", "name": [op["name"]], "type": op["type"], "data": op["data"], "ttl": op["ttl"]}
    if k == "get":
        return {"op": "get", "name": [op["name"]], "qtype": op["qtype"]}
    if k == "prune":
        return {"op": "prune"}
    if k == "tick":
        return {"op": "tick", "ms": tick}
    raise ValueError(k)


def segment_bounds(events):
    """[(start, end)) index ranges of the segments (a reset event starts one)"""
    starts = [i for i, e in enumerate(events) if e["ev"] == "reset"]
    return [(s, (starts[k + 1] if k + 1 < len(starts) else len(events))) for k, s in enumerate(starts)]


def classify(ev):
    """which property a rejected event belongs to"""
    if ev["ev"] == "panic":
        return "both"
    if ev["ev"] == "call_mismatch":
        k = ev.get("op", {}).get("op")
        return {"prune": "C15", "get": "C05", "insert": "C05"}.get(k, "both")
    if ev["ev"] == "prune":
        return "C15"
    post = ev.get("post")
    if post is not None:
        keys = {(json.dumps(e["name"]), e["type"], e["data"]) for e in post["entries"]}
        if post["size"] != len(keys) or len(keys) != len(post["entries"]):
            return "C15"
    return "C05"


def validate(v, pid, wd, name, events, threads=False):
    """TLC trace validation; rejections become violations of the owning property. Returns #segments validated."""
    path = os.path.join(wd, name + ".trace.ndjson")
    total_segments = len(segment_bounds(events))
    done = 0
    evs = events
    guard = 0
    while evs:
        guard += 1
        if guard > 20:
            break
        write_ndjson(path, evs)
        r = tlc("CacheTrace", "CacheTrace.cfg", workers=1, env={"TRACE": path}, dfs=True, timeout=3000)
        vlib.require_ok(r, name)
        v.transitions_tv = getattr(v, "transitions_tv", 0) + r.generated
        if r.ok:
            done += len(segment_bounds(evs))
            break
        um = r.tagged_raw("UNMATCHED")
        if not um:
            raise vlib.ToolError("trace validation failed without diagnosis:\n" + r.out[-2000:])
        k = int(um[0]) - 1          # 0-based index of the first event no action explains
        bounds = segment_bounds(evs)
        seg = [b for b in bounds if b[0] <= k < b[1]][0]
        bad = evs[k]
        owner = classify(bad)
        desc = "cache %s event not allowed by the specification (segment of %d events, event %d: %s)" % (
            bad["ev"], seg[1] - seg[0], k - seg[0], json.dumps({x: bad[x] for x in bad if x != "post"})[:300])
        replay = {"segment_events": evs[seg[0]:k + 1][-40:], "rejected_event": bad,
                  "how": "vh cache-run on the ops of this segment; TLC CacheTrace rejects the last event"}
        if owner in (pid, "both"):
            v.violation(desc, replay, fingerprint=None)
        else:
            vlib.log("note: rejection belongs to %s, not reported by this check: %s" % (owner, desc[:200]))
            v.notes["other_property_rejections"] = v.notes.get("other_property_rejections", 0) + 1
        done += len([b for b in bounds if b[1] <= seg[0]])
        evs = evs[seg[1]:]
    return done, total_segments
