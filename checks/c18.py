"""C18 The resolver honours the configured address family and upstream port (DESIGN 4, C18)."""
import vlib
import rescommon as rc
import unicommon as uc
from vlib import Verdict, workdir, rng

PID = "C18"


def run(tier):
    v = Verdict(PID, tier, "model_checking")
    v.rule = ("Universes as in C07 but with name servers that are IPv4-only, IPv6-only or dual-stack (addresses learnt "
              "from hints, glue, the cache or a recursive look-up), all four protocol modes, several upstream ports, "
              "and forwarding mode; hook H3 records the destination of every exchange together with the number of "
              "cache operations performed before it; TLC validates: only-v4 / only-v6 never the other family; "
              "prefer-* never the other family while an address of the preferred family for that name server is held "
              "(local zone, initial cache or inserted earlier); address look-ups ask the preferred family first; every "
              "exchange to the configured port; forwarding only to the forwarder. An evaluation is one resolution.")
    v.assumptions = ["the map from addresses to name-server hosts is supplied with the universe"]
    wd = workdir("c18")
    vlib.build_harness()
    r_ = rng(18)
    n = 80 if tier == "quick" else 2000
    scs = uc.universe_scenarios(r_, wd, n, [1, 2, 2, 3, 3, 4], "mixed", ["only-v4", "prefer-v4", "prefer-v6", "only-v6"],
                                False, nq=(2, 5), forwarding_p=0.15)
    lines, rejects = rc.run_scenarios(v, PID, wd, "tv", scs, chunk=40)
    fam = {}
    for ln in lines:
        for run_ in ln["runs"]:
            for e in run_["exchanges"]:
                k = "%s/v%d" % (ln["protocol"] if ln["mode"] != "forwarding" else "forwarding", e["v"])
                fam[k] = fam.get(k, 0) + 1
    v.notes["exchanges_by_mode_and_family"] = fam
    if lines:
        ln = lines[0]
        v.sample({"protocol": ln["protocol"], "question": ln["runs"][0]["q"],
                  "exchanges": [[e["addr"], e["port"], e["qname"], e["qtype"]] for e in ln["runs"][0]["exchanges"]]})
    v.states = max(v.states, v.traces)
    v.distinct = v.evaluations
    if len(fam) < 4:
        raise vlib.ToolError("vacuous run: %s" % fam)
    return v.finish()
