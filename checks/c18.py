"""C18 The resolver honours the configured address family and upstream port (DESIGN 4, C18)."""
import vlib
import rescommon as rc
import unicommon as uc
import reccommon as rec
from vlib import Verdict, workdir, rng

PID = "C18"


def directed(r, wd):
    """a name server host H known at first only by its non-preferred address; the server at that address is
    authoritative for the parent zone only and refers to a child zone served by the same host name, with glue of
    both families; the child is served at H's preferred-family address"""
    items, meta = [], []
    for protocol in ("prefer-v4", "prefer-v6"):
        for z in (["example"], ["corp", "test"]):
            pref4 = protocol == "prefer-v4"
            h = ["ns"] + z
            h4, h6 = "10.50.0.%d" % r.randint(2, 200), "fd00::50:%x" % r.randint(2, 200)
            rootns, r4, r6 = ["a", "root-servers"], "10.1.0.1", "fd00::1:1"
            c = ["sub"] + z
            tld = z[-1:]
            zones = []
            root_recs = [rc.rr([], "NS", rc.dotted(rootns), rootns, ttl=3600), rc.rr(rootns, "A", r4, ttl=3600),
                         rc.rr(rootns, "AAAA", r6, ttl=3600),
                         rc.rr(z if len(z) == 1 else tld, "NS", rc.dotted(h), h, ttl=3600)]
            zones.append(rc.zone([], root_recs))
            apex_z = z if len(z) == 1 else tld
            zrecs = [rc.rr(apex_z, "NS", rc.dotted(h), h, ttl=3600), rc.rr(h, "A", h4, ttl=3600), rc.rr(h, "AAAA", h6, ttl=3600),
                     rc.rr(c, "NS", rc.dotted(h), h, ttl=3600), rc.rr(["www"] + z, "A", "192.0.2.7")]
            zones.append(rc.zone(apex_z, zrecs))
            zones.append(rc.zone(c, [rc.rr(c, "NS", rc.dotted(h), h, ttl=3600), rc.rr(["www"] + c, "A", "192.0.2.9"),
                                     rc.rr(["www"] + c, "AAAA", "2001:db8::9")]))
            pref_addr, other_addr = (h4, h6) if pref4 else (h6, h4)
            servers = [{"addr": r4, "v": 4, "apexes": [[]]}, {"addr": r6, "v": 6, "apexes": [[]]},
                       {"addr": other_addr, "v": 6 if pref4 else 4, "apexes": [apex_z]},
                       {"addr": pref_addr, "v": 4 if pref4 else 6, "apexes": [apex_z, c]}]
            uni = {"zones": zones, "servers": servers}
            names = [["www"] + c, ["www"] + z, h, c, apex_z, rootns]
            u = {"universe": uni, "names": names}
            items.append({"universe": uni, "ask": rc.asks_for(u, uc.TYPES), "forwarder_ip": "10.9.9.9"})
            hints = rc.zone([], [rc.rr([], "NS", rc.dotted(rootns), rootns, ttl=3600), rc.rr(rootns, "A", r4, ttl=3600),
                                 rc.rr(rootns, "AAAA", r6, ttl=3600)], auth=False)
            cache = [{"name": apex_z, "type": "NS", "data": rc.dotted(h), "target": h, "ttl": 3000},
                     {"name": h, "type": "AAAA" if pref4 else "A", "data": other_addr, "target": [], "ttl": 3000}]
            hostaddrs = [{"host": h, "v": 4, "addr": h4}, {"host": h, "v": 6, "addr": h6},
                         {"host": rootns, "v": 4, "addr": r4}, {"host": rootns, "v": 6, "addr": r6}]
            meta.append((hints, cache, protocol, uni, hostaddrs, [{"name": ["www"] + c, "type": "A"}, {"name": ["www"] + c, "type": "AAAA"}]))
    tables = rc.reply_tables(wd, items)
    out = []
    for (hints, cache, protocol, uni, hostaddrs, qs), tab in zip(meta, tables):
        out.append(rc.scenario([hints], cache, "recursive", qs, table=rc.table_entries(tab), default={"rcode": 5},
                               protocol=protocol, universe=uni, expect_truth=False, hostaddrs=hostaddrs))
    return out


def run(tier):
    v = Verdict(PID, tier, "model_checking")
    v.rule = ("Universes as in C07 but with name servers that are IPv4-only, IPv6-only or dual-stack (addresses learnt "
              "from hints, glue, the cache or a recursive look-up), all four protocol modes, several upstream ports, "
              "and forwarding mode; hook H3 records the destination of every exchange together with the number of "
              "cache operations performed before it; TLC validates: only-v4 / only-v6 never the other family; "
              "prefer-* never the other family while an address of the preferred family for that name server is held "
              "(local zone, initial cache or inserted earlier); address look-ups ask the preferred family first; every "
              "exchange to the configured port; forwarding only to the forwarder. The resolver as a state machine "
              "(Recursive.tla, recursive and forwarding mode) is explored exhaustively inside generated universes "
              "(Inv_C18_Family: family of every contacted address against what local zones and cache hold at that "
              "moment; look-up order of resolve_hostname_to_ip; forwarder only), and every recorded resolution is "
              "validated as a behaviour of that state machine. An evaluation is one resolution.")
    v.assumptions = ["the map from addresses to name-server hosts is supplied with the universe",
                     "an IPv4-mapped IPv6 address (::ffff:a.b.c.d, from an AAAA record) is an IPv6 address"]
    wd = workdir("c18")
    vlib.build_harness()
    r_ = rng(18)
    n = 80 if tier == "quick" else 600
    scs = uc.universe_scenarios(r_, wd, n, [1, 2, 2, 3, 3, 4], "mixed", ["only-v4", "prefer-v4", "prefer-v6", "only-v6"],
                                False, nq=(2, 5), forwarding_p=0.15, partial_hints_p=0.3, fault_p=0.4, mapped_p=0.15)
    scs += directed(r_, wd)
    lines, rejects = rc.run_scenarios(v, PID, wd, "tv", scs, chunk=40)
    fam = {}
    for ln in lines:
        for run_ in ln["runs"]:
            for e in run_["exchanges"]:
                k = "%s/v%d" % (ln["protocol"] if ln["mode"] != "forwarding" else "forwarding", e["v"])
                fam[k] = fam.get(k, 0) + 1
    v.notes["exchanges_by_mode_and_family"] = fam
    # the resolver as a state machine: Inv_C18_Family in every reachable state of every explored universe (every order
    # of candidates and addresses, faults anywhere), and the recorded resolutions as behaviours of that state machine
    rec.conformance(v, wd, lines)
    rec.explore(v, PID, wd, r_, tier)
    if lines:
        ln = lines[0]
        v.sample({"protocol": ln["protocol"], "question": ln["runs"][0]["q"],
                  "exchanges": [[e["addr"], e["port"], e["qname"], e["qtype"]] for e in ln["runs"][0]["exchanges"]]})
    v.states = max(v.states, v.traces)
    v.distinct = v.evaluations
    if len(fam) < 4:
        raise vlib.ToolError("vacuous run: %s" % fam)
    return v.finish()
