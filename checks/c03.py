"""C03 Wire decoder is crash-free, bounded and accepts exactly well-formed messages (DESIGN 4, C03)."""
import json
import os

import vlib
import wirecommon as wc
from vlib import Verdict, tlc, workdir, rng

PID = "C03"


def same_verdict(d, res):
    if d["ok"] != res["ok"]:
        return False
    if d["ok"]:
        return d["msg"] == res["msg"]
    return d["hasid"] == res["hasid"] and (not d["hasid"] or d["id"] == res["id"])


def mutations(r, corpus, n):
    out = []
    for _ in range(n):
        m = bytearray(r.choice(corpus))
        x = r.random()
        if x < 0.45 and m:
            i = r.randrange(len(m))
            m[i] = r.choice([0, 1, 63, 64, 0xBF, 0xC0, 0xC1, 0xFF, r.randint(0, 255), (m[i] + 1) % 256, m[i] ^ 0x80])
        elif x < 0.75:
            m = m[:r.randint(0, len(m))]
        elif x < 0.85 and len(m) > 12:
            i = r.randrange(12, len(m))
            m[i:i + 2] = bytes([0xC0 | r.choice([0, 0, 0, 1, 63]), r.randint(0, 255)])
        elif x < 0.92 and m:
            i = r.randrange(len(m))
            del m[i]
        else:
            i = r.randrange(len(m) + 1)
            m[i:i] = bytes([r.randint(0, 255) for _ in range(r.randint(1, 4))])
        out.append(bytes(m))
    return out


def run(tier):
    v = Verdict(PID, tier, "model_checking")
    v.rule = ("MC/GEN: every byte string grown from a header and up to MaxChunks chunks (labels, maximal labels, "
              "reserved label types, pointers to the first name / into the header / to itself / forwards / truncated, "
              "fixed parts of A, NS, MX, TXT and unknown records with exact, short and long RDLENGTH) is decoded by "
              "the specification (Wire!Denote) and by Message::from_octets and the verdicts compared; TV: random "
              "octets, mutations and truncations of valid messages, and adversarial constructions up to 65535 octets "
              "are decoded by the real code on a 2 MiB-stack thread and validated by TLC running Denote on the same "
              "octets. An evaluation is one decoded input; distinct = distinct inputs.")
    v.assumptions = ["a pointer must target an offset before the start of the name it occurs in",
                     "trailing octets after a complete message are ignored (A2)",
                     "panic / stack overflow / hang are observed on the release build of the real code only"]
    wd = workdir("c03")
    vlib.build_harness()
    r_ = rng(3)
    # --- MC + GEN
    chunks = 3 if tier == "quick" else 4
    r = tlc("MCWire", None, cfg_text=wc.DEC_CFG % dict(chunks=chunks), timeout=3400, xmx="16g")
    vlib.require_ok(r, "MCWire")
    v.add_tlc(r)
    if r.violated:
        v.violation("model: %s violated" % r.violated, {"tlc_output": r.out[-4000:]})
    cases = r.tagged("GENWIRE")
    v.exhaustive = True
    obs, crashes = wc.run_harness_lines("wire-decode", os.path.join(wd, "gen.in"), os.path.join(wd, "gen.out"),
                                        [{"bytes": c["bytes"]} for c in cases])
    for idx, reason in crashes:
        v.violation("decoder crashed the process (%s)" % reason, {"hex": bytes(cases[idx]["bytes"]).hex()})
    bymap = {json.dumps(o["bytes"]): o for o in obs if o.get("ev") == "decode"}
    accepted = rejected = 0
    for c in cases:
        o = bymap.get(json.dumps(c["bytes"]))
        if o is None:
            continue
        v.evaluations += 1
        if c["d"]["ok"]:
            accepted += 1
        else:
            rejected += 1
        if not same_verdict(c["d"], o["res"]):
            v.violation("from_octets disagrees with the specification's decoder on a model-generated string",
                        {"hex": bytes(c["bytes"]).hex(), "spec": c["d"], "real": o["res"]})
    for o in obs:
        if o.get("ev") == "panic":
            v.violation("decoder panicked", {"hex": bytes(o["in"]["bytes"]).hex()})
    v.notes["gen_strings"] = len(cases)
    v.notes["gen_accepted"] = accepted
    v.notes["gen_rejected"] = rejected
    if accepted == 0 or rejected == 0:
        raise vlib.ToolError("vacuous GEN run")
    v.sample({"gen_case": {"hex": bytes(cases[len(cases) // 2]["bytes"]).hex(), "spec_verdict": cases[len(cases) // 2]["d"]["ok"]}})
    # --- TV
    corpus = wc.valid_corpus(r_, wd, 150 if tier == "quick" else 1500)
    big = wc.valid_corpus(r_, wd, 4, rawmax=16000)
    inputs = list(wc.adversarial(deep_for_tlc=(tier == "thorough")))
    inputs += corpus[:60]
    inputs += mutations(r_, corpus, 15000 if tier == "quick" else 80000)
    inputs += mutations(r_, big, 30 if tier == "quick" else 300)
    for _ in range(300 if tier == "quick" else 5000):
        n = r_.choice([0, 1, 2, 3, 11, 12, 13, 17, 40, 100, 512, r_.randint(0, 600)])
        inputs.append(bytes(r_.randint(0, 255) for _ in range(n)))
    for n in ([65535, 40000] if tier == "quick" else [65535, 65535, 40000, 20000, 16384, 16385]):
        inputs.append(bytes(r_.randint(0, 255) for _ in range(n)))
        inputs.append(wc.hdr(an=1) + b"\x00" + wc.rr_fixed(10, n - 23) + bytes(n - 23))
    # deepest chains: executed on the real decoder for crash / stack-overflow / hang detection
    deep = wc.deep_chains()
    dobs, dcr = wc.run_harness_lines("wire-decode", os.path.join(wd, "deep.in"), os.path.join(wd, "deep.out"),
                                     [{"bytes": b.hex()} for b in deep])
    for idx, reason in dcr:
        v.violation("decoder crashed the process or did not terminate on a maximal pointer chain (%s)" % reason,
                    {"hex": deep[idx].hex(), "length": len(deep[idx])})
    v.notes["deep_chains_executed"] = len(dobs)
    v.notes["deep_chains_accepted"] = sum(1 for o in dobs if o.get("res", {}).get("ok"))
    seen = set()
    uniq = []
    for b in inputs:
        if b not in seen:
            seen.add(b)
            uniq.append(b)
    items = [{"bytes": b.hex()} for b in uniq]
    obs, crashes = wc.run_harness_lines("wire-decode", os.path.join(wd, "tv.in"), os.path.join(wd, "tv.out"), items)
    for idx, reason in crashes:
        v.violation("decoder crashed the process or did not terminate (%s)" % reason, {"hex": uniq[idx].hex()[:40000],
                                                                                       "length": len(uniq[idx])})
    good = []
    for o in obs:
        if o.get("ev") == "panic":
            v.violation("decoder panicked", {"hex": o["in"]["bytes"][:40000]})
        else:
            good.append(o)
    n = wc.validate(v, PID, wd, "tv", good)
    v.traces += n
    v.evaluations += len(good)
    v.distinct = v.evaluations
    ok = sum(1 for o in good if o["res"]["ok"])
    v.notes["tv_inputs"] = len(good)
    v.notes["tv_accepted_by_real_decoder"] = ok
    v.sample({"tv_input_hex": uniq[5].hex(), "real_result": good[5]["res"] if len(good) > 5 else None})
    return v.finish()
