"""C04 Encoding then decoding a message returns the same message (DESIGN 4, C04)."""
import os

import gen
import vlib
import wirecommon as wc
from vlib import Verdict, tlc, workdir, rng

PID = "C04"


def big_messages(r, n):
    """messages between 16 KiB and 64 KiB with names repeated on both sides of offset 16384"""
    out = []
    for i in range(n):
        m = gen.wire_msg(r, maxrr=3, rawmax=30)
        pool = [q["name"] for q in m["questions"]] + [rr["name"] for rr in m["answers"]]
        size_goal = r.choice([16300, 16384, 16500, 30000, 50000, 64000])
        fill = []
        total = 0
        while total < size_goal:
            n_ = min(r.choice([200, 1000, 4000, 16000, 60000, 65535 - 0]), size_goal - total + 50, 65000)
            fill.append({"name": gen.wire_name(r, pool), "type": r.choice([10, 16, 99]), "class": 1, "ttl": [0, 5],
                         "names": [], "ints": [], "raw": [r.randint(0, 255) for _ in range(max(0, n_))]})
            total += n_ + 14
        late = []
        for _ in range(r.randint(2, 6)):
            nm = gen.wire_name(r, None, maxlabels=3)
            late.append({"name": nm, "type": 1, "class": 1, "ttl": [0, 60], "names": [], "ints": [],
                         "raw": [10, 0, 0, r.randint(1, 9)]})
            late.append({"name": nm, "type": 2, "class": 1, "ttl": [0, 60], "names": [gen.wire_name(r, pool)],
                         "ints": [], "raw": []})
            late.append({"name": [list(l) for l in nm], "type": 15, "class": 1, "ttl": [0, 60],
                         "names": [[list(l) for l in nm]], "ints": [5], "raw": []})
        m["answers"] = m["answers"] + fill[:1]
        m["authority"] = fill[1:] + late
        m["additional"] = late[:3]
        out.append(m)
    return out


def run(tier):
    v = Verdict(PID, tier, "model_checking")
    v.rule = ("MC: every message of <=MaxRecs records drawn from a universe with shared, root and 255-octet names, "
              "all RDATA shapes and opaque fillers that push later names across offset 16384, checked for "
              "Denote(Encode(m)) = m on the code-shaped encoder; GEN: the model's messages through to_octets / "
              "from_octets; TV: every header flag/opcode/rcode combination, seeded random well-formed messages from 12 "
              "octets to 64 KiB, and re-encoding of decodable octet strings, each validated by TLC decoding the real "
              "octets independently. An evaluation is one message; distinct = distinct messages.")
    v.assumptions = ["I2: type and class codes are numbers, names satisfy the DomainName invariant and are lower-case",
                     "messages whose counts or RDLENGTH exceed 16 bits are outside 'well-formed'"]
    wd = workdir("c04")
    vlib.build_harness()
    r_ = rng(4)
    cfgs = [dict(recs=3, genrecs=3, fillers="{0, 16353, 16400}")]
    if tier == "thorough":
        cfgs = [dict(recs=3, genrecs=3, fillers="{0, 16340, 16353, 16354, 16400}")]
    msgs = []
    for c in cfgs:
        r = tlc("MCWire", None, cfg_text=wc.ENC_CFG % c, timeout=3400, xmx="16g")
        vlib.require_ok(r, "MCWire enc")
        v.add_tlc(r)
        if r.violated:
            v.violation("model: code-shaped encoder violates %s" % r.violated, {"tlc_output": r.out[-3000:]})
        msgs += r.tagged("GENMSG")
    v.exhaustive = True

    def expand(m):
        for sec in ("answers", "authority", "additional"):
            for rr in m[sec]:
                if len(rr["raw"]) == 2 and rr["raw"][0] == -1:
                    rr["raw"] = [7] * rr["raw"][1]
        return m

    def nbig(m):
        return sum(1 for sec in ("answers", "authority", "additional") for rr in m[sec]
                   if len(rr["raw"]) == 2 and rr["raw"][0] == -1)
    if tier == "quick":
        # every message without a filler, and a seeded sample of those that cross the pointer range
        small = [m for m in msgs if nbig(m) == 0]
        bigs = [m for m in msgs if nbig(m) == 1]
        r_.shuffle(bigs)
        msgs = small + bigs[:400]
    v.notes["gen_messages"] = len(msgs)
    items = [{"msg": expand(m)} for m in msgs]
    obs, crashes = wc.run_harness_lines("wire-roundtrip", os.path.join(wd, "gen.in"), os.path.join(wd, "gen.out"), items)
    for idx, reason in crashes:
        v.violation("encoder/decoder crashed (%s)" % reason, {"msg": str(items[idx])[:3000]})
    good = [o for o in obs if o.get("ev") == "roundtrip"]
    for o in obs:
        if o.get("ev") == "panic":
            v.violation("encoder panicked", {"msg": str(o["in"])[:3000]})
    v.traces += wc.validate(v, PID, wd, "gen", good)
    v.evaluations += len(good)
    # --- TV: all header combinations
    items = []
    base = gen.wire_msg(r_, maxrr=1)
    for flags in range(32):
        for opcode in range(16):
            for rcode in range(16):
                m = dict(base)
                m.update({"id": (flags * 256 + opcode * 16 + rcode) % 65536, "qr": bool(flags & 1), "aa": bool(flags & 2),
                          "tc": bool(flags & 4), "rd": bool(flags & 8), "ra": bool(flags & 16), "opcode": opcode,
                          "rcode": rcode})
                items.append({"msg": m})
    # random messages, small to large
    for i in range(800 if tier == "quick" else 10000):
        items.append({"msg": gen.wire_msg(r_, maxrr=r_.choice([0, 1, 3, 8, 20]), rawmax=r_.choice([5, 40, 300, 2000]))})
    for m in big_messages(r_, 12 if tier == "quick" else 150):
        items.append({"msg": m})
    # names that differ only in where the label boundaries are (a label may contain the octet "."): as owner, in
    # the question and inside RDATA, in both orders, so that a later name could be compressed against the earlier one
    dot = lambda s: [ord(c) for c in s]
    for (n1, n2) in (([dot("john.doe"), dot("example"), dot("com")], [dot("john"), dot("doe"), dot("example"), dot("com")]),
                     ([dot("a.b")], [dot("a"), dot("b")]), ([dot("a"), dot("b.c")], [dot("a.b"), dot("c")]),
                     ([dot(".")], [[], ]), ([dot("x."), dot("y")], [dot("x"), dot(".y")])):
        if [] in n2:
            n2 = [dot("a")]                        # (an empty label cannot occur inside a name)
        for (p, q2) in ((n1, n2), (n2, n1)):
            soa = {"name": p, "type": 6, "class": 1, "ttl": [0, 60], "names": [q2, p], "ints": [0] * 10, "raw": []}
            ns = {"name": q2, "type": 2, "class": 1, "ttl": [0, 60], "names": [p], "ints": [], "raw": []}
            for (qs, an) in (([{"name": p, "qtype": 1, "qclass": 1}], [ns]), ([{"name": q2, "qtype": 6, "qclass": 1}], [soa, ns]),
                             ([], [ns, soa])):
                items.append({"msg": {"id": 77, "qr": True, "opcode": 0, "aa": True, "tc": False, "rd": False, "ra": False,
                                      "rcode": 0, "questions": qs, "answers": an, "authority": [], "additional": []}})
    # extreme RDATA sizes
    for n in (0, 65535):
        items.append({"msg": {"id": 1, "qr": True, "opcode": 0, "aa": False, "tc": False, "rd": False, "ra": False,
                              "rcode": 0, "questions": [], "answers": [{"name": [], "type": 10, "class": 1, "ttl": [0, 0],
                              "names": [], "ints": [], "raw": [7] * n}], "authority": [], "additional": []}})
    obs, crashes = wc.run_harness_lines("wire-roundtrip", os.path.join(wd, "tv.in"), os.path.join(wd, "tv.out"), items,
                                        timeout=600)
    for idx, reason in crashes:
        v.violation("encoder/decoder crashed (%s)" % reason, {"msg": str(items[idx])[:3000]})
    good = [o for o in obs if o.get("ev") == "roundtrip"]
    for o in obs:
        if o.get("ev") == "panic":
            v.violation("encoder panicked", {"msg": str(o["in"])[:3000]})
    sizes = [len(o["enc"]["bytes"]) for o in good if o["enc"].get("ok")]
    v.notes["tv_messages"] = len(good)
    v.notes["tv_max_encoded_size"] = max(sizes) if sizes else 0
    v.notes["tv_messages_beyond_16k"] = sum(1 for s in sizes if s > 16384)
    v.traces += wc.validate(v, PID, wd, "tv", good)
    v.evaluations += len(good)
    # --- re-encoding of decodable strings (corpus of valid messages + mutations that still decode)
    corpus = wc.valid_corpus(r_, wd, 200 if tier == "quick" else 3000)
    muts = []
    for b in corpus:
        m = bytearray(b)
        if len(m) > 13:
            i = r_.randrange(12, len(m))
            m[i] = r_.randint(0, 255)
        muts.append(bytes(m))
    # and hostile constructions: whatever of them the real decoder accepts must survive re-encoding
    items = [{"bytes": b.hex()} for b in corpus + muts + list(wc.adversarial(deep_for_tlc=False))]
    obs, crashes = wc.run_harness_lines("wire-decode", os.path.join(wd, "re.in"), os.path.join(wd, "re.out"), items)
    good = [o for o in obs if o.get("ev") == "decode"]
    v.traces += wc.validate(v, PID, wd, "re", good)
    v.evaluations += len(good)
    v.notes["reencoded"] = sum(1 for o in good if o["reenc"].get("present"))
    v.distinct = v.evaluations
    if good:
        v.sample({"decodable_hex": bytes(good[0]["bytes"]).hex()[:400]})
    return v.finish()
