"""C01 Local zone and hosts data always win over cache and upstream (DESIGN 4, C01)."""
import vlib
import rescommon as rc
import reccommon as rec
from vlib import Verdict, tlc, workdir, rng

PID = "C01"

CFG = """SPECIFICATION Spec
CONSTANTS
  BuggyF1 = FALSE
  Limit = 4
  MaxRecs = %(recs)d
  MaxCache = %(cache)d
INVARIANTS Inv_C01_AuthOwns Inv_C01_Override Inv_C01_Provenance Inv_C01_NxOnlyAuth Inv_C10_Chain %(gen)s
CHECK_DEADLOCK FALSE
"""


def mc_local(v, tier, pid):
    recs, cache = (2, 1) if tier == "quick" else (3, 1)
    r = tlc("MCLocal", None, cfg_text=CFG % dict(recs=recs, cache=cache, gen=""), timeout=3400, xmx="16g")
    vlib.require_ok(r, "MCLocal")
    v.add_tlc(r)
    if r.violated and (r.violated.startswith("Inv_" + pid) or pid == "C01" and r.violated.startswith("Inv_C01")):
        v.violation("model: local resolution violates %s" % r.violated, {"tlc_output": r.out[-3000:]})
    v.exhaustive = True
    g = tlc("MCLocal", None, cfg_text=CFG % dict(recs=1, cache=1, gen="Inv_Gen"), timeout=3400, xmx="16g")
    vlib.require_ok(g, "MCLocal gen")
    return g.tagged("GENLOCAL")


def run(tier):
    v = Verdict(PID, tier, "model_checking")
    v.rule = ("MC: every configuration of a non-authoritative root zone, an authoritative zone b.a. and cache contents "
              "(<=MaxRecs zone records from A / blocklist A / three aliases / NS, plain or wildcard, over a spine of "
              "nested names; <=MaxCache cached records) x every question: the code-shaped local resolution satisfies "
              "AuthOwns, Override, Provenance and NameErrorOnlyAuth; GEN: the model's configurations through "
              "resolve() in authoritative-only mode; TV: seeded random nested configurations with cache contents, in "
              "authoritative-only, recursive and forwarding mode against an upstream that answers anything (also "
              "through aliases to locally owned names). An evaluation is one resolution.")
    v.assumptions = ["I1: AA is demanded when the zone answers the question itself; alias chains leaving authoritative data "
                     "are not required to be authoritative",
                     "zones with records beneath a delegation point are outside the claim (D1)",
                     "no virtual time passes in these scenarios (TTLs are compared exactly)"]
    wd = workdir("c01")
    vlib.build_harness()
    r_ = rng(1)
    gens = mc_local(v, tier, PID)
    scs = rc.model_local_scenarios(gens)
    v.notes["gen_scenarios"] = len(scs)
    rc.run_scenarios(v, PID, wd, "gen", scs, chunk=400)
    scs = rc.local_scenarios(r_, 400 if tier == "quick" else 4000)
    lines, rejects = rc.run_scenarios(v, PID, wd, "tv", scs)
    modes = {}
    for ln in lines:
        modes[ln["mode"]] = modes.get(ln["mode"], 0) + len(ln["runs"])
    v.notes["tv_resolutions_by_mode"] = modes
    kinds = {}
    for ln in lines:
        for run_ in ln["runs"]:
            kinds[run_["result"]["kind"]] = kinds.get(run_["result"]["kind"], 0) + 1
    v.notes["tv_result_kinds"] = kinds
    # the recursive / forwarding runs as behaviours of the resolver state machine (Recursive.tla): drift only
    rec.conformance(v, wd, lines, chunk=200)
    # C01 in recursive / forwarding mode, exhaustively: the resolver state machine with authoritative local zones and
    # overrides next to the hints, inside a universe that says otherwise (every order, faults, two questions sharing the cache)
    rec.explore(v, PID, wd, r_, tier, only=["local zones"])
    if lines:
        ln = lines[len(lines) // 2]
        v.sample({"mode": ln["mode"], "question": ln["runs"][0]["q"], "result": ln["runs"][0]["result"]})
    v.distinct = v.evaluations
    for k in ("Authoritative", "NameError", "NonAuthoritative"):
        if kinds.get(k, 0) == 0:
            raise vlib.ToolError("vacuous run: no %s result" % k)
    return v.finish()
