"""Universe-based scenarios shared by C07, C08, C18."""
import rescommon as rc

TYPES = ["A", "AAAA", "TXT", "NS"]


def universe_scenarios(r, wd, n, depth_choices, families, protocols, expect_truth, nq=(2, 4), forwarding_p=0.0,
                       glue="mixed", two_glue_p=0.3, partial_hints_p=0.0, fault_p=0.0, mapped_p=0.0):
    unis = []
    for i in range(n):
        partial = r.random() < partial_hints_p
        u = rc.build_universe(r, depth=r.choice(depth_choices), nservers=r.choice([1, 2, 3]),
                              families="dual" if partial else families, glue=glue, two_glue_p=two_glue_p, share_root=partial,
                              mapped_p=mapped_p)
        u["partial"] = partial
        u["fwd"] = r.random() < forwarding_p
        unis.append(u)
    items = [{"universe": u["universe"], "ask": rc.asks_for(u, TYPES, "10.9.9.9" if u["fwd"] else None),
              "forwarder_ip": "10.9.9.9"} for u in unis]
    tables = rc.reply_tables(wd, items)
    scs = []
    for u, tab in zip(unis, tables):
        qs = [dict(q) for q in r.sample(u["questions"], min(len(u["questions"]), r.randint(*nq)))]
        if r.random() < 0.5 and qs:
            qs.append(dict(qs[0]))                 # the same question again: answered from the cache
        # a question through a chain of aliases that ends in an empty answer, asked again, then for another type
        chains = [q for q in u["questions"] if q["name"][0] == "alias2"]
        if chains and r.random() < 0.6:
            c = r.choice(chains)
            qs += [{"name": c["name"], "type": "TXT"}, {"name": c["name"], "type": "TXT"}, {"name": c["name"], "type": "A"}]
        protocol = r.choice(protocols)
        hints = u["hints"]
        if u["partial"]:
            # the hints only give the root servers' addresses of the NON-preferred family; the preferred ones are
            # learnt later, as glue of a referral to a zone served by the same hosts
            protocol = r.choice(["prefer-v4", "prefer-v6"])
            keep = "AAAA" if protocol == "prefer-v4" else "A"
            hints = dict(hints)
            hints["recs"] = [x for x in hints["recs"] if x["type"] in ("NS", keep)]
        if fault_p and r.random() < fault_p:
            for q in qs:
                # a name server that fails on both transports (UDP attempt i, TCP attempt i + 1)
                i = r.randint(0, 3)
                f = r.choice([{"kind": "rcode", "rcode": 2}, {"kind": "drop"}, {"kind": "error"}, {"kind": "wrong_id"},
                              {"kind": "rcode", "rcode": 5}])
                q["faults"] = {str(i): f, str(i + 1): f}
        scs.append(rc.scenario([hints], [], "forwarding" if u["fwd"] else "recursive", qs,
                               table=rc.table_entries(tab), default={"rcode": 5}, protocol=protocol,
                               port=r.choice([53, 53, 5353, 1053]), universe=u["universe"], expect_truth=expect_truth,
                               hostaddrs=u["hostaddrs"]))
    return scs


def glue_expiry_scenarios(r, wd, n, protocols=("only-v4", "prefer-v4", "prefer-v6", "only-v6")):
    """Histories in which time passes between two questions: the address records of the name servers carry a short
    TTL (60 s), the NS records a long one (3600 s); the second question, for another name of the same zone, comes
    61..3000 s later.  All name servers live inside the zone they serve (reachable through glue only)."""
    unis = []
    for i in range(n):
        u = rc.build_universe(r, depth=r.choice([1, 2, 2, 3]), nservers=r.choice([1, 2]), families="dual", glue="in",
                              two_glue_p=0.2)
        hosts = {tuple(h["host"]) for h in u["hostaddrs"]}
        for z in u["universe"]["zones"]:
            for x in z["recs"]:
                if x["type"] in ("A", "AAAA") and tuple(x["name"]) in hosts and x["name"][-1] != "root-servers":
                    x["ttl"] = 60
        unis.append(u)
    items = [{"universe": u["universe"], "ask": rc.asks_for(u, TYPES), "forwarder_ip": "10.9.9.9"} for u in unis]
    tables = rc.reply_tables(wd, items)
    scs = []
    for u, tab in zip(unis, tables):
        apexes = [z["apex"] for z in u["universe"]["zones"] if z["apex"]]
        a = r.choice(apexes)
        later = r.choice([61, 120, 900, 3000]) * 1000
        qs = [{"name": ["www"] + a, "type": "A"},
              {"name": ["txt"] + a, "type": "TXT", "advance_ms": later},
              {"name": ["www"] + a, "type": "A"}]
        scs.append(rc.scenario([u["hints"]], [], "recursive", qs, table=rc.table_entries(tab), default={"rcode": 5},
                               protocol=r.choice(list(protocols)), port=53, universe=u["universe"], expect_truth=True,
                               hostaddrs=u["hostaddrs"], tag="glue-expiry"))
    return scs
