"""Machinery shared by C03 / C04 / C16 (wire format): corpora, real decoder/encoder runs, TLC validation."""
import json
import os
import time
import subprocess

import gen
import vlib
from vlib import tlc, vh, write_ndjson, read_ndjson

DEC_CFG = """SPECIFICATION SpecDec
CONSTANTS
  PtrLimit = 16384
  BuggyF2 = FALSE
  MaxChunks = %(chunks)d
  MaxRecs = 0
  GenRecs = 0
  Fillers = {}
INVARIANTS Inv_C03_Id Inv_C04_Reencode Inv_GenDec
CHECK_DEADLOCK FALSE
"""

ENC_CFG = """SPECIFICATION SpecEnc
CONSTANTS
  PtrLimit = 16384
  BuggyF2 = FALSE
  MaxChunks = 0
  MaxRecs = %(recs)d
  GenRecs = %(genrecs)d
  Fillers = %(fillers)s
INVARIANTS Inv_C04_RoundTrip Inv_C04_PtrTarget Inv_GenEnc
CHECK_DEADLOCK FALSE
"""


def run_harness_lines(cmd, inp, out, items, timeout=90, max_crashes=10, stall=None):
    """run a vh wire command; a crash of the process (stack overflow, abort) or a hang is data:
    returns (observations, crashes) where crashes is a list of (index, reason)"""
    write_ndjson(inp, items)
    if stall is None:
        stall = min(timeout, 60)
    crashes = []
    obs_all = []
    start = 0
    cur_in = inp
    guard = 0
    while start < len(items) and guard < max_crashes:
        guard += 1
        if start:
            cur_in = inp + ".%d" % start
            write_ndjson(cur_in, items[start:])
        exe = vlib.build_harness()
        # the harness writes (and flushes) one result line per input line: a run that stops producing lines for
        # `stall` seconds is stuck on the next input (no need to wait for the overall time limit)
        if os.path.exists(out):
            os.remove(out)
        errf = open(out + ".stderr", "w+")
        proc = subprocess.Popen([exe, cmd, cur_in, out], stdout=subprocess.DEVNULL, stderr=errf)
        t0 = last_change = time.time()
        last_size = -1
        rc, reason = None, ""
        while True:
            try:
                rc = proc.wait(timeout=1.0)
                errf.seek(0)
                reason = "exit status %d: %s" % (rc, errf.read()[-300:])
                break
            except subprocess.TimeoutExpired:
                pass
            size = os.path.getsize(out) if os.path.exists(out) else 0
            now = time.time()
            if size != last_size:
                last_size, last_change = size, now
            if now - last_change > stall or now - t0 > timeout:
                proc.kill()
                proc.wait()
                rc, reason = -1, "no termination within %ds" % int(now - last_change if now - last_change > stall else timeout)
                break
        errf.close()
        obs = read_ndjson(out) if os.path.exists(out) else []
        obs_all += obs
        if rc == 0:
            break
        crashes.append((start + len(obs), reason))
        start = start + len(obs) + 1
    return obs_all, crashes


def shrink(x, maxlist=24):
    """copy of a JSON value with long lists abbreviated (for replay files)"""
    if isinstance(x, dict):
        return {k: shrink(v, maxlist) for k, v in x.items()}
    if isinstance(x, list):
        if len(x) > maxlist:
            return [shrink(v, maxlist) for v in x[:8]] + ["... %d items ..." % (len(x) - 16)] + [shrink(v, maxlist) for v in x[-8:]]
        return [shrink(v, maxlist) for v in x]
    return x


def validate(v, pid, wd, name, obs, items_desc="inputs"):
    """TLC trace validation of decode / roundtrip observations; returns number of lines validated"""
    path = os.path.join(wd, name + ".trace.ndjson")
    n = 0
    CH = 1500
    for lo in range(0, len(obs), CH):
        part = obs[lo:lo + CH]
        write_ndjson(path, part)
        r = tlc("WireTrace", "WireTrace.cfg", workers=1, env={"TRACE": path}, dfs=True, timeout=3000, xmx="12g")
        vlib.require_ok(r, name)
        v.transitions += r.generated
        rej = r.tagged_raw("REJECT")
        if r.violated and not rej:
            raise vlib.ToolError("trace not consumed: " + r.out[-1500:])
        for x in rej:
            idx, owner = x.split(",")
            idx = int(idx.strip())
            owner = owner.strip().strip('"')
            o = part[idx - 1]
            if owner == pid:
                hexs = None
                if "bytes" in o:
                    hexs = bytes(o["bytes"]).hex()
                elif o.get("enc", {}).get("ok"):
                    hexs = bytes(o["enc"]["bytes"]).hex()
                v.violation("%s: real code disagrees with the wire specification (%s event)" % (pid, o["ev"]),
                            {"observation": shrink({k: o[k] for k in o if k != "bytes"}),
                             "octets_hex": hexs if hexs is None or len(hexs) < 6000 else hexs[:3000] + "..." + hexs[-3000:],
                             "octets_len": None if hexs is None else len(hexs) // 2,
                             "how": "vh wire-decode / wire-roundtrip, then TLC WireTrace"})
            else:
                v.notes["other_property_rejections"] = v.notes.get("other_property_rejections", 0) + 1
        v.notes["drift_lines"] = v.notes.get("drift_lines", 0) + len(r.tagged_raw("DRIFT"))
        n += len(part)
    return n


# ---------------------------------------------------------------------------
# corpora

def valid_corpus(r, wd, n, rawmax=40, lower=False):
    msgs = [{"msg": gen.wire_msg(r, maxrr=r.choice([0, 1, 2, 4]), rawmax=rawmax, lower=True)} for _ in range(n)]
    inp = os.path.join(wd, "corpus.in.ndjson")
    out = os.path.join(wd, "corpus.out.ndjson")
    write_ndjson(inp, msgs)
    vh(["wire-encode", inp, out])
    return [bytes.fromhex(o["hex"]) for o in read_ndjson(out) if o.get("hex")]


def hdr(id_=0x1234, flags=0x0100, qd=0, an=0, ns=0, ar=0):
    return bytes([id_ >> 8, id_ & 255, flags >> 8, flags & 255, qd >> 8, qd & 255, an >> 8, an & 255,
                  ns >> 8, ns & 255, ar >> 8, ar & 255])


def ptr(off):
    return bytes([0xC0 | (off >> 8), off & 255])


def rr_fixed(t, rdlen, cls=1, ttl=300):
    return bytes([t >> 8, t & 255, cls >> 8, cls & 255]) + ttl.to_bytes(4, "big") + bytes([rdlen >> 8, rdlen & 255])


def adversarial(deep_for_tlc=True):
    """hand-built hostile inputs (structure only; the verdict comes from the specification)"""
    out = []
    q = b"\x03www\x07example\x03com\x00\x00\x01\x00\x01"
    out.append(hdr(qd=1) + ptr(12) + b"\x00\x01\x00\x01")                        # self pointer
    out.append(hdr(qd=1) + ptr(14) + b"\x00\x01\x00\x01")                        # forward pointer
    out.append(hdr(qd=1) + ptr(0) + b"\x00\x01\x00\x01")                         # into the header (id octets)
    out.append(hdr(id_=0xC000, qd=1) + ptr(0) + b"\x00\x01\x00\x01")             # header octets form a pointer loop
    out.append(hdr(id_=0x0000, qd=1) + ptr(0) + b"\x00\x01\x00\x01")             # header octets form a root label
    out.append(hdr(id_=0x0161, qd=1) + ptr(0) + b"\x00\x01\x00\x01")
    out.append(hdr(qd=2) + b"\x01a" + ptr(16) + b"\x00\x01\x00\x01" + b"\x01b" + ptr(12) + b"\x00\x01\x00\x01")  # mutual loop
    out.append(hdr(qd=1) + b"\x01a" + ptr(12) + b"\x00\x01\x00\x01")             # pointer to own start
    out.append(hdr(qd=1) + b"\x01a" + ptr(13) + b"\x00\x01\x00\x01")             # pointer into own label
    out.append(hdr(qd=65535, an=65535, ns=65535, ar=65535))                      # counts far larger than payload
    out.append(hdr(qd=65535) + q)
    out.append(hdr(qd=1) + b"\x40abc\x00\x00\x01\x00\x01")                       # reserved label types
    out.append(hdr(qd=1) + b"\x80abc\x00\x00\x01\x00\x01")
    out.append(hdr(qd=1) + b"\xbf" + b"a" * 70)
    # label / name length boundaries
    for ln in (62, 63, 64):
        out.append(hdr(qd=1) + bytes([ln]) + b"x" * ln + b"\x00\x00\x01\x00\x01")
    for total in (253, 254, 255, 256, 257):
        # labels of 63 until the encoded length (labels + length octets + root) is `total`
        body = b""
        need = total - 1
        while need > 0:
            ln = min(63, need - 1)
            if ln <= 0:
                break
            body += bytes([ln]) + b"y" * ln
            need -= ln + 1
        out.append(hdr(qd=1) + body + b"\x00\x00\x01\x00\x01")
    # a name that exceeds 255 octets only after its pointer suffix is expanded
    long_name = b"".join(bytes([63]) + b"z" * 63 for _ in range(3)) + bytes([1]) + b"z"   # 194 octets + root
    base = hdr(qd=2) + long_name + b"\x00\x00\x01\x00\x01"
    for extra in (57, 58, 59, 60, 61, 62, 63):
        out.append(base + bytes([extra]) + b"w" * extra + ptr(12) + b"\x00\x01\x00\x01")
    # RDLENGTH lies
    for t, rd, rdlen in ((1, b"\x0a\x00\x00\x01", 4), (1, b"\x0a\x00\x00\x01", 3), (1, b"\x0a\x00\x00\x01", 5),
                         (2, b"\x02ns" + ptr(12), 5), (2, b"\x02ns" + ptr(12), 4), (2, b"\x02ns" + ptr(12), 6),
                         (15, b"\x00\x0a" + ptr(12), 4), (15, b"\x00\x0a" + ptr(12), 2), (16, b"\x03abc", 4),
                         (16, b"\x03abc", 400), (28, b"\x00" * 16, 16), (28, b"\x00" * 15, 15),
                         (6, ptr(12) + ptr(12) + b"\x00" * 20, 24), (6, ptr(12) + ptr(12) + b"\x00" * 19, 23),
                         (33, b"\x00\x01\x00\x02\x00\x35" + ptr(12), 8), (14, ptr(12) + b"\x00", 3)):
        out.append(hdr(qd=1, an=1) + q + ptr(12) + rr_fixed(t, rdlen) + rd)
    # maximal backward pointer chains: a NULL record whose opaque RDATA holds root, ptr, ptr, ...; then an owner
    # name pointing at the last link.  Depth is bounded by the 14-bit pointer range.
    # (TLC needs time quadratic in the depth of a chain, so the quick tier validates chains of up to 2000
    # links with TLC and only executes the deepest ones on the real decoder: see deep_chains())
    for links in ((10, 1000, 2000, 4000, 8170) if deep_for_tlc else (10, 1000, 2000)):
        chain = b"\x00"
        first = 12 + 1 + 10          # root owner name + fixed part, RDATA starts here
        off = first
        for i in range(links):
            chain += ptr(off)
            off = first + 1 + 2 * i
        last = first + 1 + 2 * (links - 1)
        if last >= 16384:
            continue
        m = hdr(an=2) + b"\x00" + rr_fixed(10, len(chain)) + chain + ptr(last) + rr_fixed(1, 4) + b"\x01\x02\x03\x04"
        out.append(m)
    # a chain with a label in front of every few links: still bounded by the 255 limit
    chain = b"\x00"
    first = 12 + 1 + 10
    offs = [first]
    body = b"\x00"
    for i in range(300):
        offs.append(first + len(body))
        body += b"\x01k" + ptr(offs[-2])
    m = hdr(an=2) + b"\x00" + rr_fixed(10, len(body)) + body + ptr(offs[-1]) + rr_fixed(1, 4) + b"\x01\x02\x03\x04"
    out.append(m)
    return out


def deep_chains():
    """the deepest legal pointer chains (about 8175 nested decoder frames): for crash / stack / hang observation"""
    out = []
    for links in (4000, 8170, 8180):
        chain = b"\x00"
        first = 12 + 1 + 10
        off = first
        for i in range(links):
            chain += ptr(off)
            off = first + 1 + 2 * i
        last = first + 1 + 2 * (links - 1)
        if last >= 16384:
            continue
        out.append(hdr(an=2) + b"\x00" + rr_fixed(10, len(chain)) + chain + ptr(last) + rr_fixed(1, 4) + b"\x01\x02\x03\x04")
    return out
