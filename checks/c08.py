"""C08 Every resolution terminates in bounded time whatever upstream servers do (DESIGN 4, C08)."""
import copy

import vlib
import rescommon as rc
import unicommon as uc
import reccommon as rec
from vlib import Verdict, workdir, rng

PID = "C08"


def fault_kinds(r, q):
    """faults that can be assigned to one exchange"""
    nm = q["name"]
    ref = lambda owner, host: {"rcode": 0, "aa": False, "answers": [], "additional": [],
                               "authority": [{"name": owner, "type": "NS", "data": rc.dotted(host), "target": host, "ttl": 60}]}
    return [
        {"kind": "drop"}, {"kind": "error"}, {"kind": "delay", "delay_ms": 4000}, {"kind": "delay", "delay_ms": 6000},
        {"kind": "delay", "delay_ms": 70000}, {"kind": "garbage", "bytes": [r.randint(0, 255) for _ in range(r.choice([0, 1, 5, 40]))]},
        {"kind": "truncate_bytes", "keep": r.choice([0, 1, 2, 11, 12, 13, 20])}, {"kind": "wrong_id"}, {"kind": "tc"},
        {"kind": "rcode", "rcode": 2}, {"kind": "rcode", "rcode": 5}, {"kind": "not_response"}, {"kind": "no_question"},
        # lame referral: to a name server whose name cannot be resolved
        {"kind": "custom", "reply": ref(nm[-1:], ["ns", "nowhere", "invalid"])},
        # circular referral: the zone refers to itself / to its parent
        {"kind": "custom", "reply": ref(nm[-2:] if len(nm) >= 2 else nm, ["a", "root-servers"])},
        {"kind": "custom", "reply": ref([], ["a", "root-servers"])},
        # alias loop within one reply, and an alias back to the question
        {"kind": "custom", "reply": {"rcode": 0, "aa": True, "authority": [], "additional": [], "answers": [
            {"name": nm, "type": "CNAME", "data": rc.dotted(["l1"] + nm), "target": ["l1"] + nm, "ttl": 60},
            {"name": ["l1"] + nm, "type": "CNAME", "data": rc.dotted(nm), "target": nm, "ttl": 60}]}},
        {"kind": "custom", "reply": {"rcode": 0, "aa": True, "authority": [], "additional": [], "answers": [
            {"name": nm, "type": "CNAME", "data": rc.dotted(nm), "target": nm, "ttl": 60}]}},
        # an alias that leads into a loop which does not pass through the question name
        {"kind": "custom", "reply": {"rcode": 0, "aa": True, "authority": [], "additional": [], "answers": [
            {"name": nm, "type": "CNAME", "data": rc.dotted(["l1"] + nm), "target": ["l1"] + nm, "ttl": 60},
            {"name": ["l1"] + nm, "type": "CNAME", "data": rc.dotted(["l2"] + nm), "target": ["l2"] + nm, "ttl": 60},
            {"name": ["l2"] + nm, "type": "CNAME", "data": rc.dotted(["l1"] + nm), "target": ["l1"] + nm, "ttl": 60}]}},
        # contradiction: NXDOMAIN with an answer, referral plus answer
        {"kind": "custom", "reply": {"rcode": 3, "aa": True, "additional": [], "answers": [
            {"name": nm, "type": "A", "data": "6.6.6.6", "target": [], "ttl": 60}],
            "authority": [{"name": nm[-1:], "type": "SOA", "data": "m. r. 1 2 3 4 5", "target": [], "ttl": 60}]}},
    ]


def hostile_scenarios(r):
    """upstreams that misbehave on every exchange"""
    hints = rc.zone([], [rc.rr([], "NS", "a.root.", ["a", "root"], ttl=3600), rc.rr(["a", "root"], "A", "10.0.0.1", ttl=3600),
                         rc.rr(["a", "root"], "AAAA", "fd00::1", ttl=3600)], auth=False)
    q = {"name": ["www", "a", "b", "c", "d", "e", "example"], "type": "A"}
    out = []
    # everything is dropped / refused / garbage
    for d in ("drop", "error", {"rcode": 2}, {"rcode": 0, "tc": True}):
        for mode in ("recursive", "forwarding"):
            out.append(rc.scenario([hints], [], mode, [dict(q), dict(q)], table=[], default=d, protocol="prefer-v4"))
    # an endless staircase of referrals, one label at a time, each through a fresh name server that must itself be resolved
    table = []
    nm = q["name"]
    for addr in ["10.0.0.1"] + ["10.7.0.%d" % i for i in range(1, 9)]:
        for k in range(1, len(nm) + 1):
            owner = nm[len(nm) - k:]
            host = ["ns"] + owner
            for qt in ("A", "AAAA"):
                table.append({"addr": addr, "qname": nm, "qtype": qt, "reply": {
                    "rcode": 0, "aa": False, "answers": [], "authority": [
                        {"name": owner, "type": "NS", "data": rc.dotted(host), "target": host, "ttl": 60}],
                    "additional": [{"name": host, "type": "A", "data": "10.7.0.%d" % k, "target": [], "ttl": 60}]}})
    out.append(rc.scenario([hints], [], "recursive", [dict(q)], table=table, default={"rcode": 2}))
    # every exchange is slow: 4.9 s each
    slow = copy.deepcopy(out[-1])
    for qq in slow["questions"]:
        qq["faults"] = {str(i): {"kind": "delay", "delay_ms": 4900} for i in range(0, 40)}
    out.append(slow)
    # aliases in circles across exchanges
    table = []
    ring = [["r%d" % i, "example"] for i in range(5)]
    for i, n in enumerate(ring):
        t = ring[(i + 1) % len(ring)]
        for qt in ("A", "TXT"):
            for addr in ("10.0.0.1", "10.9.9.9"):
                table.append({"addr": addr, "qname": n, "qtype": qt, "reply": {"rcode": 0, "aa": True, "authority": [],
                              "additional": [], "answers": [{"name": n, "type": "CNAME", "data": rc.dotted(t), "target": t, "ttl": 60}]}})
    for mode in ("recursive", "forwarding"):
        out.append(rc.scenario([hints], [], mode, [{"name": ring[0], "type": "A"}, {"name": ring[2], "type": "TXT"}],
                               table=table, default={"rcode": 2}))
    # replies far larger than the cache (and than a datagram: truncated over UDP, complete over TCP), twice
    bigq = {"name": ["big", "example"], "type": "A"}
    for (nrec, size) in ((40, 4), (17, 8), (200, 64)):
        big = [{"name": bigq["name"], "type": "A", "data": "10.%d.%d.%d" % (60 + i // 40000, (i // 200) % 200, i % 200 + 1),
                "target": [], "ttl": 60} for i in range(nrec)]
        table = [{"addr": addr, "qname": bigq["name"], "qtype": "A",
                  "reply": {"rcode": 0, "aa": True, "authority": [], "additional": [], "answers": big}}
                 for addr in ("10.0.0.1", "10.9.9.9")]
        for mode in ("recursive", "forwarding"):
            out.append(rc.scenario([hints], [], mode, [dict(bigq), dict(bigq), {"name": ["other", "example"], "type": "A"}],
                                   table=table, default={"rcode": 2}, cache_size=size))
    # a chain of 40 aliases, one per reply
    table = []
    chain = [["c%d" % i, "example"] for i in range(41)]
    for i in range(40):
        for addr in ("10.0.0.1", "10.9.9.9"):
            table.append({"addr": addr, "qname": chain[i], "qtype": "A", "reply": {"rcode": 0, "aa": True, "authority": [],
                          "additional": [], "answers": [{"name": chain[i], "type": "CNAME", "data": rc.dotted(chain[i + 1]),
                                                         "target": chain[i + 1], "ttl": 60}]}})
    for mode in ("recursive", "forwarding"):
        out.append(rc.scenario([hints], [], mode, [{"name": chain[0], "type": "A"}], table=table, default={"rcode": 2}))
        # the same with every exchange answered after 4 s: the 60 s budget runs out in the middle of the chain
        for d in (4000, 4999, 2500):
            out.append(rc.scenario([hints], [], mode, [{"name": chain[0], "type": "A",
                                                        "faults": {str(i): {"kind": "delay", "delay_ms": d} for i in range(80)}}],
                                   table=table, default={"rcode": 2}))
    return out


def socket_level(v, wd):
    """the real binary in forwarding mode against real sockets: an upstream that stays silent, and one that keeps sending
    datagrams with the wrong ID every 2 s.  Each transport attempt is limited to 5 s, so the client must have its
    (SERVFAIL) reply within 5 s (UDP) + 5 s (TCP) + slack.  This is a wall-clock observation; the bound is the
    specification's (two transports x 5 s), the comparison is done by the driver."""
    import threading
    import time
    import serverdrv as sd
    import c19
    results = {}

    def one(behaviour):
        up = sd.MockUpstream({}, behaviour=behaviour)
        try:
            srv = sd.Server(wd, ["--forward-address", "127.0.0.1:%d" % up.port])
            try:
                t0 = time.time()
                rep = sd.udp_exchange(srv.port, c19.question(["www", "example", "com"], 1, 77), wait=20.0)
                results[behaviour] = (time.time() - t0, rep["present"], rep["bytes"][3] & 15 if rep["present"] else -1, srv.alive())
            finally:
                srv.stop()
        finally:
            up.stop()
    cuts = ["tcp_full", "tcp_prefix:0", "tcp_prefix:1", "tcp_cut:0", "tcp_cut:1", "tcp_cut:2", "tcp_cut:3", "tcp_cut:11",
            "tcp_cut:12", "tcp_cut:20"]
    ths = [threading.Thread(target=one, args=(b,)) for b in ["silent", "wrong_id_stream"] + cuts]
    for t in ths:
        t.start()
    for t in ths:
        t.join()
    v.notes["socket_level_seconds"] = {k: round(x[0], 2) for k, x in results.items()}
    for k, (dt, present, rcode, alive) in results.items():
        v.evaluations += 1
        if not present or dt > 12.0 or not alive:
            v.violation("socket level: a forwarded query was not answered within 5 s per transport attempt",
                        {"upstream_behaviour": k, "seconds": round(dt, 2), "reply_present": present, "server_alive": alive})
    # a TCP reply that is cut short is an error of that exchange, nothing more: the client gets its SERVFAIL;
    # the complete reply is passed on
    for k in cuts:
        if k in results and results[k][1]:
            want = 0 if k == "tcp_full" else 2
            if results[k][2] != want:
                v.violation("socket level: wrong RCODE after an upstream TCP reply that was %s" % ("complete" if want == 0 else "cut short"),
                            {"upstream_behaviour": k, "rcode": results[k][2], "expected": want})


def run(tier):
    v = Verdict(PID, tier, "fault_enumeration")
    v.rule = ("Fault enumeration over recorded resolutions: seeded well-behaved universes (replies from the specification's "
              "server model) are first resolved without faults; then, for every exchange index of that run and every "
              "fault kind (drop, connection error, delay 4 / 6 / 70 s, garbage, truncated octets, wrong ID, TC, SERVFAIL, "
              "REFUSED, not-a-response, no question, lame referral, circular referrals, alias loops, contradictory "
              "reply) the resolution is repeated with that fault injected at that exchange (thorough: every pair of "
              "faults), in recursive and forwarding mode, under tokio's paused clock; plus upstreams that misbehave on "
              "every exchange (silent, refusing, endless referral staircase, all slow, aliases in circles, 40-link alias "
              "chain). TLC validates every run: finished, no panic, at most 60 s virtual time, at most 5 s per "
              "transport attempt, every returned record supplied by a reply or local data. An evaluation is one faulted "
              "resolution; distinct = distinct (scenario, fault assignment) pairs. The resolver as a state machine "
              "(Recursive.tla) is explored exhaustively inside generated universes, consistent and hostile (alias loops, "
              "lame zones, delegations to nowhere or without glue), with failed transport attempts and cache loss placed "
              "anywhere: Live_C08_Ends (every resolution ends, weak fairness), Inv_C08_Stack, Inv_C08_Supplied; every "
              "recorded resolution is validated as a behaviour of that state machine (RecursiveTrace).")
    v.assumptions = ["time is tokio's paused clock; the scripted transport (hook H3) sits below the 5 s time-out wrappers, "
                     "response_matches_request and the UDP -> TCP fallback, which all run for real"]
    wd = workdir("c08")
    vlib.build_harness()
    r_ = rng(8)
    nbase = 12 if tier == "quick" else 40
    base = uc.universe_scenarios(r_, wd, nbase, [1, 2, 2, 3], "dual", ["prefer-v4", "only-v4", "prefer-v6"], False,
                                 nq=(1, 1), forwarding_p=0.25)
    for s in base:
        s["questions"] = s["questions"][:1]
    lines, _ = rc.run_scenarios(v, PID, wd, "base", base, chunk=40)
    faulted = []
    for s, ln in zip(base, lines):
        nex = len(ln["runs"][0]["exchanges"])
        kinds = fault_kinds(r_, s["questions"][0])
        for i in range(min(nex, 10)):
            for f in kinds:
                sc = copy.deepcopy(s)
                sc["questions"][0]["faults"] = {str(i): f}
                sc["expect_truth"] = False
                faulted.append(sc)
        if tier == "thorough":
            for i in range(min(nex, 6)):
                for j in range(i + 1, min(nex + 2, 8)):
                    for _ in range(12):
                        sc = copy.deepcopy(s)
                        sc["questions"][0]["faults"] = {str(i): r_.choice(kinds), str(j): r_.choice(kinds)}
                        sc["expect_truth"] = False
                        faulted.append(sc)
    v.notes["fault_assignments"] = len(faulted)
    lines2, _ = rc.run_scenarios(v, PID, wd, "faults", faulted, chunk=150)
    lines3, _ = rc.run_scenarios(v, PID, wd, "hostile", hostile_scenarios(r_), chunk=40)
    outcomes = {}
    longest = 0
    for ln in lines2 + lines3:
        for run_ in ln["runs"]:
            k = run_["result"]["kind"] + (":" + run_["result"]["err"] if run_["result"]["err"] else "")
            outcomes[k] = outcomes.get(k, 0) + 1
            longest = max(longest, run_["t1"] - run_["t0"])
    v.notes["outcomes"] = outcomes
    v.notes["longest_resolution_virtual_ms"] = longest
    if lines2:
        ln = lines2[len(lines2) // 3]
        v.sample({"mode": ln["mode"], "question": ln["runs"][0]["q"], "result": ln["runs"][0]["result"],
                  "virtual_ms": ln["runs"][0]["t1"] - ln["runs"][0]["t0"],
                  "exchanges": [[e["t"], e["addr"], "tcp" if e["tcp"] else "udp", e["faultkind"]] for e in ln["runs"][0]["exchanges"]]})
    socket_level(v, wd)
    # the resolver as a state machine: termination (liveness under weak fairness), bounded question stack, nothing
    # invented - in consistent and hostile universes, with failed transport attempts and cache loss anywhere;
    # and the recorded (faulted) resolutions as behaviours of that state machine
    rec.conformance(v, wd, lines + lines2 + lines3, chunk=400)
    rec.explore(v, PID, wd, r_, tier)
    v.distinct = v.evaluations
    if longest < 59000 or not any(k.endswith("Timeout") for k in outcomes):
        raise vlib.ToolError("vacuous run: no resolution was slowed down")
    return v.finish()
