"""C17 Configuration parsers never crash on any text (DESIGN 4, C17)."""
import json
import os

import gen
import vlib
import wirecommon as wc
import ztcommon as zt
from vlib import Verdict, tlc, workdir, rng

PID = "C17"

CFG = """SPECIFICATION Spec
CONSTANTS
  BuggyF14 = FALSE
  BuggyF9 = FALSE
  MaxLen = %(maxlen)d
INVARIANTS Inv_C17_ZoneTotal Inv_C17_HostsTotal Inv_C17_HostsLines %(gen)s
CHECK_DEADLOCK FALSE
"""


def cps(s):
    return [ord(c) for c in s]


def mutate(r, text):
    t = list(text)
    for _ in range(r.choice([1, 1, 2, 4])):
        x = r.random()
        pos = r.randrange(len(t) + 1)
        if x < 0.25 and t:
            del t[r.randrange(len(t))]
        elif x < 0.55:
            t[pos:pos] = r.choice(['"', "(", ")", "\\", "\\2", "\\25", "\\256", ";", "\n", "\x00", "é", " ", " ",
                                   "99999999999999999999", "@", "*", "$ORIGIN", "$INCLUDE", "#", "%", "\t", " IN ",
                                   "\r", ".", "..", "\U0001F600", "x" * 300])
        elif x < 0.7 and t:
            t[r.randrange(len(t))] = chr(r.choice([0, 9, 10, 13, 32, 34, 40, 41, 59, 92, 127, 233, 0x2028, 0xFFFF]))
        elif x < 0.8 and t:
            i = r.randrange(len(t))
            t = t[:i]                              # truncation (possibly inside an escape / quotes / parentheses)
        elif x < 0.9 and t:
            i, j = sorted((r.randrange(len(t)), r.randrange(len(t))))
            t[i:i] = t[i:j]                        # duplication
        else:
            t.reverse()
    return "".join(t)


def stress_inputs():
    """very long inputs, given compactly as (prefix, unit x times, suffix)"""
    def rep(unit, times, prefix="", suffix=""):
        return {"repeat": {"unit": cps(unit), "times": times, "prefix": cps(prefix), "suffix": cps(suffix)}}
    return [rep("\n", 300000), rep("; comment\n", 200000), rep(" \n", 200000, "$ORIGIN x.\n"),
            rep("x", 2000000, "", " 300 IN A 10.0.0.1\n"), rep("x.", 200000, "", " 300 IN A 10.0.0.1\n"),
            rep("(", 100000), rep("( ", 100000), rep(")", 1000), rep("\"", 200001), rep("\\", 200001),
            rep("a 300 IN A 10.0.0.1\n", 100000, "$ORIGIN x.\n"), rep("a 300 IN TXT x (\n", 100000, "$ORIGIN x.\n"),
            rep("\\000", 300000, "x. 300 IN TXT "), rep("1.2.3.4 a\n", 200000), rep("#", 1000000), rep(" ", 2000000),
            rep("1.2.3.4 " + "a" * 70 + "\n", 1000), rep("é", 100000), rep(" ", 500000, "a", " b"),
            rep("9", 100000, "x. ", " IN A 10.0.0.1"), rep("x " * 1000 + "\n", 200, "$ORIGIN x.\n"),
            rep("$ORIGIN a.\n", 100000), rep("a.", 126, "$ORIGIN ", "\nb 1 A 10.0.0.1\n"), rep("a.", 127, "$ORIGIN ", "\nb 1 A 10.0.0.1\n"),
            rep("a.", 128, "1.2.3.4 ", "\n")]


def run(tier):
    v = Verdict(PID, tier, "model_checking")
    v.rule = ("MC: the specification's zone and hosts parsers yield a verdict for every string of <=MaxLen characters "
              "over 15 character classes (totality: every state/class pair has an arm, every step consumes input); "
              "GEN: all those strings through Zone::deserialise and Hosts::deserialise (verdicts compared; a "
              "difference is reported as drift, a crash as a violation); TV: seeded random Unicode text, grammar-aware "
              "mutations of rendered zone and hosts files, and very long inputs (hundreds of thousands of blank or "
              "comment lines, megabyte tokens, unbalanced quotes and parentheses), run on a 2 MiB-stack thread in a "
              "child process; the verdict of a sample is validated by TLC. An evaluation is one text.")
    v.assumptions = ["panic / stack overflow / hang are observed on the real (release) code only; the specification "
                     "supplies structure-covering inputs and the expected verdicts",
                     "a reload parses files on a tokio worker thread (2 MiB stack)"]
    wd = workdir("c17")
    vlib.build_harness()
    r_ = rng(17)
    maxlen = 4 if tier == "quick" else 5
    r = tlc("MCTextTotal", None, cfg_text=CFG % dict(maxlen=maxlen, gen="Inv_Gen"), timeout=3400, xmx="16g")
    if r.error:
        # an evaluation error of the specification on some string = the specification's parser is not total
        v.violation("model: the specification's parser is undefined on some string", {"tlc_output": r.error[-3000:]})
        return v.finish()
    v.add_tlc(r)
    if r.violated:
        v.violation("model: %s violated" % r.violated, {"tlc_output": r.out[-3000:]})
    v.exhaustive = True
    gens = r.tagged("GENTEXT")
    items = [{"text": g["text"]} for g in gens]
    obs, crashes = wc.run_harness_lines("parse-only", os.path.join(wd, "gen.in"), os.path.join(wd, "gen.out"), items,
                                        timeout=300)
    for idx, reason in crashes:
        v.violation("a parser crashed the process or did not terminate (%s)" % reason,
                    {"text": "".join(chr(c) for c in items[idx]["text"])})
    drift = 0
    k = 0
    crashed = {i for i, _ in crashes}
    for i, g in enumerate(gens):
        if i in crashed:
            continue
        if k >= len(obs):
            break
        o = obs[k]
        k += 1
        if o.get("ev") == "panic":
            v.violation("a parser panicked", {"text": "".join(chr(c) for c in g["text"])})
        elif o["zone_ok"] != g["zone_ok"] or o["hosts_ok"] != g["hosts_ok"]:
            drift += 1
    v.notes["gen_strings"] = len(gens)
    v.notes["gen_verdict_drift"] = drift
    v.evaluations += len(gens)
    # --- TV: crash detection at scale
    texts = []
    base = [gen.zt_file(r_) for _ in range(150)] + [gen.zt_file(r_, f) for f in gen.ZT_FAULTS] + zt.repo_zone_files()
    import c14
    base += [c14.random_file(r_) for _ in range(150)]
    n = 20000 if tier == "quick" else 150000
    for _ in range(n):
        texts.append(mutate(r_, r_.choice(base)))
    for _ in range(n // 10):
        k = r_.choice([0, 1, 2, 5, 20, 200])
        texts.append("".join(chr(r_.choice([r_.randint(0, 127), r_.randint(0, 0x2FFF), r_.randint(0, 0x10FFFF)]))
                             for _ in range(k)).encode("utf-8", "ignore").decode("utf-8", "ignore"))
    # long tokens with a multi-byte character at every offset around the powers of two and 60..70, 250..260 octets
    # (anything that cuts text by byte positions), in every field of a hosts line and of a zone entry; and every
    # base text without its final newline, with and without a trailing comment
    for k in list(range(28, 36)) + list(range(58, 72)) + list(range(124, 132)) + list(range(250, 260)):
        for ch in ("\u00e9", "\u20ac", "\U0001f600"):
            tok = "x" * k + ch + "y" * 5
            texts += [tok + " name", "10.0.0.1 " + tok, "10.0.0.1 a " + tok, tok + " 300 IN A 10.0.0.1", "a 300 IN TXT " + tok,
                      "a 300 IN CNAME " + tok, "$ORIGIN " + tok, "a 300 IN A 10.0.0.1 ; " + tok, "10.0.0.1 a # " + tok]
    for b in base[:60]:
        t = b.rstrip("\n")
        texts += [t, t + " ; c", t + ";", t + " # c", t + "#", t + " (", t + ' "']
    texts = [t for t in texts if all(not (0xD800 <= ord(c) <= 0xDFFF) for c in t)]
    items = [{"text": cps(t)} for t in texts] + stress_inputs()
    obs, crashes = wc.run_harness_lines("parse-only", os.path.join(wd, "tv.in"), os.path.join(wd, "tv.out"), items,
                                        timeout=900, max_crashes=4, stall=30)
    for idx, reason in crashes:
        it = items[idx]
        v.violation("a parser crashed the process or did not terminate (%s)" % reason,
                    {"text": "".join(chr(c) for c in it["text"])[:5000]} if "text" in it else {"repeat": {
                        "unit": "".join(chr(c) for c in it["repeat"]["unit"]), "times": it["repeat"]["times"],
                        "prefix": "".join(chr(c) for c in it["repeat"]["prefix"])}})
    for o in obs:
        if o.get("ev") == "panic":
            v.violation("a parser panicked", {"in": str(o.get("in"))[:3000]})
    v.evaluations += len(items)
    v.notes["tv_texts"] = len(items)
    v.notes["tv_zone_accepted"] = sum(1 for o in obs if o.get("zone_ok"))
    v.notes["tv_hosts_accepted"] = sum(1 for o in obs if o.get("hosts_ok"))
    v.notes["tv_longest_input_chars"] = max([o.get("chars", 0) for o in obs] or [0])
    # --- verdict sample validated by TLC (zone texts through ZoneTextTrace, as drift)
    sample = [t for t in texts if len(t) < 1500][: (1500 if tier == "quick" else 20000)]
    cases = [zt.text_case(t, False) for t in sample]
    good, panics, rejects, nbig = zt.run_cases(v, wd, "verdict", cases)
    for o in panics:
        v.violation("zone parser panicked", {"text": "".join(chr(c) for c in o["in"]["text"])})
    v.traces += len(good)
    v.notes["verdict_sample"] = len(good)
    v.notes["verdict_sample_drift"] = len(rejects)
    v.distinct = v.evaluations
    v.sample({"text": texts[7][:300]})
    v.sample(stress_inputs()[0]["repeat"]["times"])
    return v.finish()
