"""C12 Configuration files compose by union, with the last SOA winning (DESIGN 4, C12)."""
import os
import shutil

import gen
import vlib
import wirecommon as wc
from vlib import Verdict, tlc, vh, workdir, rng, write_ndjson, read_ndjson

PID = "C12"

CFG = """SPECIFICATION Spec
CONSTANTS
  BuggyF1 = FALSE
  BuggyF7 = FALSE
  BuggyF8 = FALSE
  MaxZones = %(zones)d
  MaxRecs = %(recs)d
INVARIANTS Inv_C12_Union Inv_C12_OneSoa %(gen)s
CHECK_DEADLOCK FALSE
"""


def dotted(name):
    return ".".join(name) + "." if name else "."


def render_zone(z):
    """canonical text of a structured zone: absolute names, explicit TTL and class, one record per line"""
    lines = []
    if z["auth"]:
        lines.append("%s IN SOA %s" % (dotted(z["apex"]), z["soa"]["data"]))
    for r in z["recs"]:
        if r["type"] == "SOA":
            continue
        owner = dotted(r["name"])
        if r["wild"]:
            owner = "*." if owner == "." else "*." + owner
        data = r["data"]
        if r["type"] in ("TXT", "HINFO", "NULL", "WKS"):
            octs = bytes.fromhex(data[1:])
            data = '"' + "".join("\\%03d" % b for b in octs) + '"'
        lines.append("%s %d IN %s %s" % (owner, r["ttl"], r["type"], data))
    return "\n".join(lines) + "\n"


def render_hosts(h):
    return "".join("%s %s\n" % (e["addr"], ".".join(e["name"]) if e["name"] else ".") for e in h)


def lay_out(r, base, zones, hosts):
    """write the configuration as files: a prefix of the zones as explicit files, the rest in a directory under
    names whose sorted order is the order of application.  Returns (files dict, zones in effective order, hosts ...)"""
    shutil.rmtree(base, ignore_errors=True)
    os.makedirs(os.path.join(base, "zdir"))
    os.makedirs(os.path.join(base, "hdir"))
    os.makedirs(os.path.join(base, "zdir", "subdir-is-ignored"))
    k = r.randint(0, len(zones))
    zone_files, zone_dir_names = [], []
    # now and then the FIRST file is made long to read (megabytes of comment lines that denote nothing): the order in
    # which files take effect is the order in which they are given, not the order in which their loading ends
    pad = ("\n" + "; %s\n" % ("padding " * 12) * 30000) if (len(zones) >= 2 and r.random() < 0.12) else ""
    for i, z in enumerate(zones[:k]):
        p = os.path.join(base, "explicit-%d.zone" % (len(zones) - i))       # names do not matter for explicit files
        open(p, "w").write(render_zone(z) + (pad if i == 0 else ""))
        zone_files.append(p)
    # directory entries: sorted order is byte order of the file name ("10-" sorts before "2-")
    names = sorted(r.sample(["10-a.zone", "2-b.zone", "A.zone", "a.zone", "_x.zone", "z.zone", "1.zone", "b/../c.zone"[:1] + ".zone"], len(zones) - k))
    for j, (name, z) in enumerate(zip(names, zones[k:])):
        open(os.path.join(base, "zdir", name), "w").write(render_zone(z) + (pad if (k == 0 and j == 0) else ""))
    kh = r.randint(0, len(hosts))
    hosts_files = []
    for i, h in enumerate(hosts[:kh]):
        p = os.path.join(base, "hosts-%d" % (9 - i))
        open(p, "w").write(render_hosts(h))
        hosts_files.append(p)
    hnames = sorted(r.sample(["20-block", "3-lan", "Z", "a"], len(hosts) - kh))
    for name, h in zip(hnames, hosts[kh:]):
        open(os.path.join(base, "hdir", name), "w").write(render_hosts(h))
    return {"zone_files": zone_files, "zone_dirs": [os.path.join(base, "zdir")], "hosts_files": hosts_files,
            "hosts_dirs": [os.path.join(base, "hdir")]}


def questions(r, zones, hosts):
    names = {()}
    for z in zones:
        names.add(tuple(z["apex"]))
        for x in z["recs"]:
            names.add(tuple(x["name"]))
            names.add(tuple(["w"] + x["name"]))
            names.add(tuple(["v", "w"] + x["name"]))
    for h in hosts:
        for e in h:
            names.add(tuple(e["name"]))
    qs = []
    for n in sorted(names):
        for t in ("A", "AAAA", "SOA", "ANY", r.choice(["NS", "CNAME", "MX", "TXT"])):
            qs.append({"name": list(n), "type": t})
    r.shuffle(qs)
    return qs[:60]


def random_config(r):
    """zones for the same apex draw their records from one pool (in different orders), so files overlap"""
    apexes = [[], ["lan"], ["example", "com"]]
    pools = {}
    for apex in apexes:
        z = gen.rand_zone(r, maxrecs=14, maxdepth=2, d1free=True, apex=apex, auth=True,
                          types=["A", "A", "AAAA", "MX", "TXT", "NS", "CNAME"], labels=["a", "b", "www", "h"], wild_p=0.3)
        pool = z["recs"]
        # several records of one type at one owner, so that overlaps are not adjacent
        for x in list(pool)[:4]:
            if x["type"] == "A":
                for k in range(2):
                    y = dict(x)
                    y["data"] = "10.3.%d.%d" % (k, r.randint(1, 5))
                    pool.append(y)
        pools[tuple(apex)] = pool
    zones = []
    for _ in range(r.randint(1, 5)):
        apex = r.choice(apexes)
        auth = r.random() < 0.6 or bool(apex)
        pool = pools[tuple(apex)]
        recs = r.sample(pool, r.randint(0, min(len(pool), 8))) if pool else []
        r.shuffle(recs)
        z = {"apex": list(apex), "auth": auth, "soa": gen.soa_rec(apex, r.choice([0, 60, 3600]), serial=r.randint(1, 999))
             if auth else gen.dummy_soa(), "recs": [dict(x) for x in recs]}
        zones.append(z)
    hosts = []
    for _ in range(r.randint(0, 3)):
        h = {}
        for _ in range(r.randint(1, 4)):
            name = r.choice([["h"], ["a"], ["www", "lan"], ["blocked", "example", "com"], ["b", "a"]])
            v = r.choice([4, 4, 6])
            h[(tuple(name), v)] = {"name": name, "v": v, "addr": r.choice(["10.1.1.1", "10.1.1.2", "0.0.0.0"]) if v == 4
                                   else r.choice(["::1", "2001:db8::5"])}
        hosts.append(list(h.values()))
    return zones, hosts


def validate(v, wd, name, cases):
    inp = os.path.join(wd, name + ".in.ndjson")
    out = os.path.join(wd, name + ".out.ndjson")
    write_ndjson(inp, cases)
    vh(["zone-merge", inp, out])
    obs = read_ndjson(out)
    good = []
    for o in obs:
        if o.get("ev") == "panic":
            v.violation("merging zones / hosts panicked", wc.shrink(o["in"], 20))
        else:
            good.append(o)
    path = os.path.join(wd, name + ".trace.ndjson")
    for lo in range(0, len(good), 2000):
        part = good[lo:lo + 2000]
        write_ndjson(path, part)
        r = tlc("ZoneMergeTrace", "ZoneMergeTrace.cfg", workers=1, env={"TRACE": path}, dfs=True, timeout=3000, xmx="12g")
        vlib.require_ok(r, name)
        v.transitions += r.generated
        rej = r.tagged_raw("REJECT")
        if r.violated and not rej:
            raise vlib.ToolError("trace not consumed: " + r.out[-1500:])
        for x in rej:
            o = part[int(x) - 1]
            v.violation("the loaded configuration is not the union of its files (or a zone has not exactly one SOA)",
                        {"zones": wc.shrink(o["zones"], 30), "hosts": o["hosts"],
                         "merged_via_api": wc.shrink(o["api"]["zones"], 30),
                         "merged_via_files": wc.shrink(o["fs"].get("zones"), 30) if o.get("has_files") else None})
        v.traces += len(part)
    v.evaluations += len(good)
    if good:
        v.sample({"zones": wc.shrink(good[len(good) // 2]["zones"], 6), "hosts": good[len(good) // 2]["hosts"]})
    return good


def run(tier):
    v = Verdict(PID, tier, "model_checking")
    v.rule = ("MC: every sequence of <=MaxZones zones over two apexes (non-authoritative root, SOA minimum 60 or 300, "
              "<=MaxRecs plain / wildcard records each from a 12-record universe with overlaps) and <=2 hosts maps: the "
              "code-shaped load (label-tree merge, SOA replacement, hosts last) equals the union with exactly one SOA; "
              "GEN: the model's configurations through Zones::insert_merge / Hosts::merge; TV: seeded random "
              "configurations of 1..5 zones and 0..3 hosts maps, through the API and as real files and directories "
              "through load_zone_configuration, with lookups of every name. An evaluation is one configuration.")
    v.assumptions = ["file contents are rendered canonically by the driver (parsing itself is C11's business)",
                     "sorted order of a directory = byte order of the file names"]
    wd = workdir("c12")
    vlib.build_harness()
    r_ = rng(12)
    zones_n, recs_n = (2, 2) if tier == "quick" else (3, 1)
    r = tlc("MCZoneMerge", None, cfg_text=CFG % dict(zones=zones_n, recs=recs_n, gen=""), timeout=3400, xmx="16g")
    vlib.require_ok(r, "MCZoneMerge")
    v.add_tlc(r)
    if r.violated:
        v.violation("model: the merge model is not the union (%s)" % r.violated, {"tlc_output": r.out[-3000:]})
    if tier == "thorough":
        r2 = tlc("MCZoneMerge", None, cfg_text=CFG % dict(zones=2, recs=2, gen=""), timeout=3400, xmx="16g")
        vlib.require_ok(r2, "MCZoneMerge")
        v.add_tlc(r2)
        if r2.violated:
            v.violation("model: the merge model is not the union (%s)" % r2.violated, {"tlc_output": r2.out[-3000:]})
    v.exhaustive = True
    r = tlc("MCZoneMerge", None, cfg_text=CFG % dict(zones=2, recs=1, gen="Inv_Gen"), timeout=3400, xmx="16g")
    vlib.require_ok(r, "MCZoneMerge gen")
    cases = []
    for g in r.tagged("GENCONFIG"):
        zones, hosts = g["zones"], g["hosts"]
        cases.append({"zones": zones, "hosts": hosts, "qs": questions(r_, zones, hosts), "files": None})
    v.notes["gen_configurations"] = len(cases)
    validate(v, wd, "gen", cases)
    cases = []
    n = 200 if tier == "quick" else 5000
    for i in range(n):
        zones, hosts = random_config(r_)
        files = lay_out(r_, os.path.join(wd, "cfg-%d" % i), zones, hosts)
        cases.append({"zones": zones, "hosts": hosts, "qs": questions(r_, zones, hosts), "files": files})
    validate(v, wd, "tv", cases)
    for i in range(n):
        shutil.rmtree(os.path.join(wd, "cfg-%d" % i), ignore_errors=True)
    v.notes["tv_configurations"] = n
    v.distinct = v.evaluations
    return v.finish()
