"""C13 Writing a zone to text and reading it back changes nothing (DESIGN 4, C13)."""
import json
import os
import subprocess

import gen
import vlib
import ztcommon as zt
from vlib import Verdict, tlc, workdir, rng

PID = "C13"

CFG = """SPECIFICATION Spec
CONSTANTS
  BuggyF14 = FALSE
  BuggyF9 = FALSE
  MaxRecs = %(recs)d
  Specials <- %(specials)s
INVARIANTS Inv_C13_RoundTrip %(gen)s
CHECK_DEADLOCK FALSE
"""


def model_zone_to_case(z):
    def rec(r):
        return {"name": r["name"], "wild": r["wild"], "type": r["type"], "ttl": str(r["ttl"]), "names": r["names"],
                "nums": [str(x) for x in r["nums"]], "raw": r["raw"], "addr": r["addr"]}
    soa = {"names": z["soa"]["names"], "nums": [str(x) for x in z["soa"]["nums"]]} if z["auth"] else {"names": [], "nums": []}
    return {"mode": "api", "zone": {"apex": z["apex"], "auth": z["auth"], "soa": soa, "recs": [rec(r) for r in z["recs"]]},
            "lits": zt.LITS + [{"tok": zt.cps("10.0.0.1"), "v": 4, "canon": "10.0.0.1"}], "claim": True}


def random_api_zone(r):
    """labels: ASCII octets, no dot, not starting with '*', lower case; RDATA octets arbitrary"""
    def label():
        n = r.choice([1, 1, 2, 3, 6])
        pool = [c for c in range(0, 128) if c != 46 and not (65 <= c <= 90)]
        l = [r.choice(pool) for _ in range(n)]
        if l[0] == 42:
            l[0] = 120
        return l
    apex = [label() for _ in range(r.choice([0, 0, 1, 2]))] + [[]]
    auth = r.random() < 0.7 or len(apex) > 1
    names = [[label() for _ in range(r.randint(1, 3))] + apex for _ in range(4)] + [apex, [label(), []]]
    if r.random() < 0.25:
        # owner labels made of digits only (reverse zones: "1", "42"), one label below the apex and deeper
        names[0] = [[ord(c) for c in r.choice(["1", "42", "300", "0"])]] + apex
        names[1] = [[ord("7")], [ord(c) for c in "10"]] + apex
    if r.random() < 0.15:
        # names that fill the 255 octets of the wire form exactly (254 characters when written with the final dot)
        def fill(suffix):
            used = 1 + sum(len(l) + 1 for l in suffix if l)
            out = []
            while 255 - used > 64:
                out.append([97 + r.randrange(26)] * 63)
                used += 64
            if 255 - used >= 2:
                out.append([98 + r.randrange(20)] * (255 - used - 1))
            return out + suffix
        names[2] = fill(apex)
        names[5] = fill([[]])
    recs = []
    for _ in range(r.randint(1, 6)):
        t = r.choice(["A", "AAAA", "TXT", "HINFO", "NULL", "WKS", "CNAME", "NS", "PTR", "MX", "SRV", "MINFO", "MB", "MG",
                      "MR", "MD", "MF"])
        owner = r.choice(names[:5])
        rec = {"name": owner, "wild": r.random() < 0.2, "type": t, "ttl": str(r.choice([0, 60, 300, 86400])),
               "names": [], "nums": [], "raw": [], "addr": ""}
        if t == "A":
            rec["addr"] = r.choice(gen.ZT_V4)
        elif t == "AAAA":
            import ipaddress
            rec["addr"] = ipaddress.IPv6Address(r.choice(gen.ZT_V6)).compressed
        elif t in ("TXT", "HINFO", "NULL", "WKS"):
            rec["raw"] = [r.randint(0, 255) for _ in range(r.choice([0, 1, 4, 12]))]
        elif t == "MX":
            rec["nums"] = [str(r.randint(0, 65535))]
            rec["names"] = [r.choice(names)]
        elif t == "SRV":
            rec["nums"] = [str(r.randint(0, 65535)) for _ in range(3)]
            rec["names"] = [r.choice(names)]
        elif t == "MINFO":
            rec["names"] = [r.choice(names), r.choice(names)]
        else:
            rec["names"] = [r.choice(names)]
        recs.append(rec)
    minimum = r.choice([0, 60, 3600])
    soa = {"names": [r.choice(names), r.choice(names)], "nums": [str(r.randint(0, 99999)), "7200", "900", "86400",
                                                                 str(minimum)]} if auth else {"names": [], "nums": []}
    return {"mode": "api", "zone": {"apex": apex, "auth": auth, "soa": soa, "recs": recs}, "lits": zt.LITS, "claim": True}


def ztoz(text):
    exe = os.path.join(vlib.build_repo_bins(), "ztoz")
    p = subprocess.run([exe], input=text.encode("utf-8"), stdout=subprocess.PIPE, stderr=subprocess.PIPE, timeout=60)
    return p.returncode, p.stdout.decode("utf-8", "replace")


def run(tier):
    v = Verdict(PID, tier, "model_checking")
    v.rule = ("MC: every zone of <=MaxRecs records in which a label or the opaque RDATA is one of the awkward octet "
              "strings (quote, backslash, semicolon, parentheses, blank, tab, @, $, digit, control, DEL, ...) placed as "
              "first / inner owner label, wildcard parent, RDATA name inside / outside the zone and opaque RDATA, for "
              "root and non-root apex, authoritative and not: ParseZone(Serialise(z)) = z on the code-shaped serialiser; "
              "GEN: the same zones built through Zone::new/insert/insert_wildcard, written by Zone::serialise and read "
              "back; TV: zones obtained by parsing rendered zone files over all types, random API-built zones, and the "
              "ztoz binary applied twice. An evaluation is one zone; distinct = distinct zones.")
    v.assumptions = ["labels are ASCII, contain no dot and do not start with '*' (the property's own scope)",
                     "I4: a non-authoritative zone has the root apex", "line order inside the written text is not compared"]
    wd = workdir("c13")
    vlib.build_harness()
    r_ = rng(13)
    recs, specials = (2, "SpecialsQuick") if tier == "quick" else (2, "SpecialsAll")
    r = tlc("MCZoneSer", None, cfg_text=CFG % dict(recs=recs, specials=specials, gen=""), timeout=3400, xmx="16g")
    vlib.require_ok(r, "MCZoneSer")
    v.add_tlc(r)
    if r.violated:
        v.violation("model: the serialiser model does not round-trip (%s)" % r.violated, {"tlc_output": r.out[-3000:]})
    v.exhaustive = True
    r = tlc("MCZoneSer", None, cfg_text=CFG % dict(recs=1 if tier == "quick" else 2, specials=specials, gen="Inv_Gen"),
            timeout=3400, xmx="16g")
    vlib.require_ok(r, "MCZoneSer gen")
    cases = [model_zone_to_case(z) for z in r.tagged("GENZONESER")]
    v.notes["gen_zones"] = len(cases)
    # random API-built zones
    cases += [random_api_zone(r_) for _ in range(600 if tier == "quick" else 6000)]
    # zones obtained by parsing rendered text
    cases += [zt.text_case(gen.zt_file(r_), True) for _ in range(800 if tier == "quick" else 6000)]
    for t in zt.repo_zone_files():
        cases.append(zt.text_case(t, True))
    good, panics, rejects, nbig = zt.run_cases(v, wd, "rt", cases)
    for o in panics:
        v.violation("serialiser / parser panicked", {"in": str(o["in"])[:2000]})
    for idx, why in rejects:
        if why == "roundtrip":
            v.violation("writing the zone to text and reading it back does not give the same zone", zt.show(good[idx]))
        else:
            v.notes["parse_rejections_see_C11"] = v.notes.get("parse_rejections_see_C11", 0) + 1
    v.traces += len(good)
    v.evaluations += len(good)
    v.notes["round_trips"] = sum(1 for o in good if o.get("rt", {}).get("present"))
    if good:
        v.sample(zt.show(good[len(good) // 2]))
    # ztoz twice (the real binary): normalising preserves the meaning, normalising twice changes nothing more
    texts = [gen.zt_file(r_) for _ in range(40 if tier == "quick" else 400)] + zt.repo_zone_files()
    cases = []
    once = []
    for t in texts:
        rc, o1 = ztoz(t)
        if rc != 0:
            continue
        rc2, o2 = ztoz(o1)
        if rc2 != 0:
            v.violation("ztoz rejects its own output", {"input": t, "first_output": o1})
            continue
        if sorted(o1.splitlines()) != sorted(o2.splitlines()):
            v.violation("normalising a zone file twice changes it again", {"input": t, "first": o1, "second": o2})
        once.append((t, o1))
        cases.append(zt.text_case(t, True))
        cases.append(zt.text_case(o1, True))
    good, panics, rejects, nbig = zt.run_cases(v, wd, "ztoz", cases)
    for k in range(0, len(good) - 1, 2):
        a, b = good[k]["out"], good[k + 1]["out"]
        if a != b:
            v.violation("ztoz output means a different zone than its input",
                        {"input": "".join(chr(c) for c in good[k]["text"]), "output": "".join(chr(c) for c in good[k + 1]["text"])})
    for idx, why in rejects:
        if why == "roundtrip" or idx % 2 == 1:
            v.violation("ztoz output is not read back as the zone it was written from", zt.show(good[idx]))
    v.notes["ztoz_files"] = len(once)
    v.evaluations += len(once)
    v.traces += len(good)
    v.distinct = v.evaluations
    return v.finish()
