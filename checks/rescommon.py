"""Machinery shared by the resolver properties C01, C06, C07, C08, C10, C18.

Scenarios are structure only (zones, servers, who serves what, which exchange gets which fault); the replies of
well-behaved servers come from the specification (TLC, module ReplyTable) and every verdict from TLC (ResolveTrace).
"""
import json
import os

import vlib
import wirecommon as wc
from vlib import tlc, vh, write_ndjson, read_ndjson

NONE_SOA = {"name": [], "wild": False, "type": "NONE", "data": "", "target": [], "ttl": 0}
PROPS = ("C01", "C06", "C07", "C08", "C10", "C18")


def dotted(name):
    return ".".join(name) + "." if name else "."


def rr(name, t, data, target=None, ttl=300, wild=False):
    return {"name": list(name), "wild": wild, "type": t, "data": data, "target": list(target or []), "ttl": ttl}


def soa(apex, minimum=300):
    suf = dotted(apex) if apex else ""
    return {"name": list(apex), "wild": False, "type": "SOA", "data": "m.%s r.%s 1 7200 900 86400 %d" % (suf, suf, minimum),
            "target": [], "ttl": minimum}


def zone(apex, recs, auth=True, minimum=300):
    return {"apex": list(apex), "auth": auth, "soa": soa(apex, minimum) if auth else dict(NONE_SOA), "recs": recs}


# ---------------------------------------------------------------------------
# universes

def build_universe(r, depth=2, nservers=2, families="mixed", glue="mixed", two_glue_p=0.3, share_root=False, mapped_p=0.0):
    """a consistent delegation tree from the root. returns dict(universe, hints, hostaddrs, questions, names)"""
    apexes = [[]]
    tlds = [["com"], ["org"]][: r.choice([1, 2])]
    apexes += tlds
    slds = []
    if depth >= 2:
        for t in tlds:
            for l in r.sample(["ex", "site", "shop"], r.choice([1, 2])):
                slds.append([l] + t)
    apexes += slds
    if depth >= 3 and slds:
        for s in r.sample(slds, min(len(slds), r.choice([1, 2]))):
            apexes.append([r.choice(["sub", "dev"])] + s)
    if depth >= 4:
        deep = [a for a in apexes if len(a) == 3]
        if deep:
            apexes.append(["x"] + deep[0])
            if depth >= 5:
                apexes.append(["y", "x"] + deep[0])
    zones = {tuple(a): {"apex": a, "recs": []} for a in apexes}
    hostaddr = {}          # host name tuple -> list of (v, addr)
    serves = {}            # addr -> set of apex tuples
    counter = [0]

    def new_addrs(host):
        fam = families if families != "mixed" else r.choice(["v4", "v6", "dual", "dual"])
        out = []
        counter[0] += 1
        if fam in ("v4", "dual"):
            out.append((4, "10.%d.%d.%d" % (len(host), counter[0] // 200, counter[0] % 200 + 1)))
            if r.random() < two_glue_p:
                out.append((4, "10.%d.%d.%d" % (len(host), 100 + counter[0] // 200, counter[0] % 200 + 1)))
        if fam in ("v6", "dual"):
            if r.random() < mapped_p:
                # an IPv6 address of the IPv4-mapped form: still an IPv6 address (AAAA record, IPv6 socket)
                out.append((6, "::ffff:10.%d.%d.%d" % (200 + len(host), counter[0] // 200, counter[0] % 200 + 1)))
            else:
                out.append((6, "fd00::%x:%x" % (len(host) + 1, counter[0])))
        return out

    order = sorted(apexes, key=len)
    ns_of = {}
    for a in order:
        hosts = []
        if share_root and len(a) == 1:
            ns_of[tuple(a)] = list(ns_of[()])       # the root's name servers also serve the top-level zones
            continue
        for i in range(r.randint(1, nservers)):
            inzone = glue == "in" or (glue == "mixed" and r.random() < 0.6) or not a
            earlier = [b for b in order if len(b) < len(a) and b and not (len(a) > len(b) and a[len(a) - len(b):] == b)]
            if inzone or not earlier:
                h = (["a", "root-servers"] if not a else ["ns%d" % (i + 1)] + a)
                if not a and i > 0:
                    h = ["b", "root-servers"]
            else:
                b = r.choice(earlier)
                h = ["ns-%s" % "-".join(a)[:20] if a else "nsroot"] + b
            h = tuple(h)
            if h not in hostaddr:
                hostaddr[h] = new_addrs(h)
            if h not in hosts:
                hosts.append(h)
        ns_of[tuple(a)] = hosts
    # NS + address records
    for a in order:
        z = zones[tuple(a)]
        for h in ns_of[tuple(a)]:
            z["recs"].append(rr(a, "NS", dotted(h), h, ttl=3600))
            for (v, addr) in hostaddr[h]:
                serves.setdefault(addr, set()).add(tuple(a))
        if a:
            # delegation in the parent: the closest enclosing zone
            parent = max([b for b in apexes if len(b) < len(a) and a[len(a) - len(b):] == b], key=len)
            pz = zones[tuple(parent)]
            for h in ns_of[tuple(a)]:
                pz["recs"].append(rr(a, "NS", dotted(h), h, ttl=3600))
                if len(h) >= len(a) and list(h[len(h) - len(a):]) == a:       # in-bailiwick: glue
                    for (v, addr) in hostaddr[h]:
                        pz["recs"].append(rr(h, "A" if v == 4 else "AAAA", addr, ttl=3600))
    # every host's address records live in the zone that owns its name
    def owner_zone(name):
        return max([b for b in apexes if len(b) <= len(name) and list(name[len(name) - len(b):]) == b], key=len)
    for h, addrs in hostaddr.items():
        z = zones[tuple(owner_zone(list(h)))]
        for (v, addr) in addrs:
            rec = rr(h, "A" if v == 4 else "AAAA", addr, ttl=3600)
            if rec not in z["recs"]:
                z["recs"].append(rec)
    # content
    questions = []
    leafs = [a for a in apexes if a]
    for a in leafs:
        z = zones[tuple(a)]
        www = ["www"] + a
        z["recs"].append(rr(www, "A", "192.0.2.%d" % r.randint(1, 250)))
        if r.random() < 0.5:
            z["recs"].append(rr(www, "A", "192.0.2.%d" % r.randint(1, 250), ttl=60))
        if r.random() < 0.4:
            z["recs"].append(rr(www, "AAAA", "2001:db8::%x" % r.randint(1, 999)))
        z["recs"].append(rr(["txt"] + a, "TXT", "x%02x%02x" % (r.randint(0, 255), r.randint(0, 255))))
        other = r.choice(leafs)
        z["recs"].append(rr(["alias"] + a, "CNAME", dotted(["www"] + other), ["www"] + other))
        if r.random() < 0.4:
            z["recs"].append(rr(["alias2"] + a, "CNAME", dotted(["alias"] + other), ["alias"] + other))
        questions += [{"name": www, "type": "A"}, {"name": www, "type": "AAAA"}, {"name": ["alias"] + a, "type": "A"},
                      {"name": ["nope"] + a, "type": "A"}, {"name": ["txt"] + a, "type": "A"},
                      {"name": ["txt"] + a, "type": "TXT"}, {"name": ["alias2"] + a, "type": "A"}, {"name": a, "type": "NS"},
                      {"name": ["alias"] + a, "type": "TXT"}, {"name": ["alias2"] + a, "type": "TXT"},
                      {"name": ["alias2"] + a, "type": "AAAA"}]
    for h in hostaddr:
        questions.append({"name": list(h), "type": r.choice(["A", "AAAA"])})
    uzones = [zone(z["apex"], dedup(z["recs"])) for z in zones.values()]
    servers = [{"addr": addr, "v": 6 if ":" in addr else 4, "apexes": [list(a) for a in sorted(aps)]} for addr, aps in sorted(serves.items())]
    root_hosts = ns_of[()]
    hint_recs = []
    for h in root_hosts:
        hint_recs.append(rr([], "NS", dotted(h), h, ttl=3600))
        for (v, addr) in hostaddr[h]:
            hint_recs.append(rr(h, "A" if v == 4 else "AAAA", addr, ttl=3600))
    hints = zone([], hint_recs, auth=False)
    hostaddrs = [{"host": list(h), "v": v, "addr": addr} for h, addrs in hostaddr.items() for (v, addr) in addrs]
    names = set()
    for q in questions:
        names.add(tuple(q["name"]))
    for z in uzones:
        names.add(tuple(z["apex"]))
        for x in z["recs"]:
            names.add(tuple(x["name"]))
            if x["target"]:
                names.add(tuple(x["target"]))
    return {"universe": {"zones": uzones, "servers": servers}, "hints": hints, "hostaddrs": hostaddrs,
            "questions": questions, "names": sorted(names)}


def dedup(recs):
    seen = set()
    out = []
    for x in recs:
        k = json.dumps(x, sort_keys=True)
        if k not in seen:
            seen.add(k)
            out.append(x)
    return out


def reply_tables(wd, items):
    """items: [{universe, ask:[{addr,name,type}], forwarder_ip}] -> list of tables (one per item), from TLC"""
    path = os.path.join(wd, "asks.ndjson")
    tables = []
    for lo in range(0, len(items), 40):
        part = items[lo:lo + 40]
        write_ndjson(path, part)
        r = tlc("ReplyTable", "ReplyTable.cfg", workers=1, env={"TRACE": path}, dfs=True, timeout=3000, xmx="12g")
        vlib.require_ok(r, "ReplyTable")
        if not r.ok:
            raise vlib.ToolError("ReplyTable did not finish: " + r.out[-1500:])
        got = {}
        pre = '<<"TABLE", '
        for ln in r.printed:
            if ln.startswith(pre):
                rest = ln[len(pre):-2]
                idx, payload = rest.split(", ", 1)
                got[int(idx)] = json.loads(json.loads(payload))
        for i in range(len(part)):
            tables.append(got[i + 1])
    return tables


def asks_for(u, types, forwarder_ip=None):
    asks = []
    addrs = [s["addr"] for s in u["universe"]["servers"]]
    if forwarder_ip:
        addrs = [forwarder_ip]
    for a in addrs:
        for n in u["names"]:
            for t in types:
                asks.append({"addr": a, "name": list(n), "type": t})
    return asks


def table_entries(tab):
    """TLC's replies -> harness table"""
    out = []
    for e in tab:
        rep = e["reply"]
        out.append({"addr": e["addr"], "qname": e["qname"], "qtype": e["qtype"],
                    "reply": {"rcode": rep["rcode"], "aa": rep["aa"], "answers": rep["answers"],
                              "authority": rep["authority"], "additional": rep["additional"]}})
    return out


# ---------------------------------------------------------------------------
# scenarios and traces

def scenario(zones, cache, mode, questions, table=None, default=None, protocol="only-v4", port=53,
             forwarder="10.9.9.9:53", universe=None, expect_truth=False, hostaddrs=None, tag="", cache_size=512):
    fip, fport = forwarder.rsplit(":", 1)
    return {"cache_size": cache_size, "zones": zones, "cache": cache, "mode": mode, "protocol": protocol, "port": port, "forwarder": forwarder,
            "forwarder_ip": fip.strip("[]"), "forwarder_port": int(fport), "table": table or [],
            "default": default if default is not None else {"rcode": 5}, "questions": questions,
            "has_universe": universe is not None, "universe": universe or {"zones": [], "servers": []},
            "expect_truth": expect_truth, "hostaddrs": hostaddrs or [], "tag": tag}


def normalise(o):
    """harness output -> trace line (uniform shapes for TLC)"""
    for run in o["runs"]:
        ex = []
        for e in run["exchanges"]:
            rep = e["reply"]
            f = e.get("fault")
            if isinstance(f, dict) and "reply" in f:
                rep = f["reply"]
            fk = f.get("kind", "") if isinstance(f, dict) else ""
            if fk in ("drop", "error", "garbage") or not isinstance(rep, dict):
                rj = {"kind": "none", "rcode": 0, "answers": [], "authority": [], "additional": []}
            else:
                rj = {"kind": "msg", "rcode": rep.get("rcode", 0), "answers": rep.get("answers", []),
                      "authority": rep.get("authority", []), "additional": rep.get("additional", [])}
            clean_fault = fk if fk not in ("", "delay") else ""
            if isinstance(rep, dict) and any(k in rep for k in ("id_xor", "tc", "qr", "opcode", "question")) and not clean_fault:
                clean_fault = "header"
            if isinstance(rep, dict) and rep.get("rcode", 0) not in (0, 3) and not clean_fault:
                clean_fault = "rcode"
            ex.append({"n": e["n"], "t": e["t"], "tcp": e["tcp"], "addr": e["addr"], "v": e["v"], "port": e["port"],
                       "qname": e["qname"], "qtype": e["qtype"], "rd": e["rd"], "reply": rj, "faultkind": clean_fault,
                       "cache_seq": e.get("cache_seq", 0)})
        run["exchanges"] = ex
        ce = []
        for c in run["cache_events"]:
            if c["ev"] == "insert":
                # (the target of an NS record as labels: a change of notation of its data, "ns1.ex.com." -> [ns1, ex, com])
                tgt = [l for l in c["data"].rstrip(".").split(".") if l] if c["type"] == "NS" else []
                ce.append({"ev": "insert", "name": c["name"], "type": c["type"], "data": c["data"], "ttl": c["ttl"], "target": tgt})
            else:
                ce.append({"ev": c["ev"], "name": c.get("name", []), "type": c.get("qtype", ""), "data": "", "ttl": 0, "target": []})
        run["cache_events"] = ce
    o.pop("table", None)
    o.pop("default", None)
    for q in o.get("questions", []):
        q.pop("faults", None)
        q.pop("advance_ms", None)
    return o


def run_scenarios(v, pid, wd, name, scenarios, chunk=150):
    """real resolver on the scenarios; TLC validation. Returns (lines, rejects: list of (line index, run, property))"""
    inp = os.path.join(wd, name + ".in.ndjson")
    out = os.path.join(wd, name + ".out.ndjson")
    # a resolution that never returns (or kills the process) is data: the scenario is reported, the rest still runs
    obs, crashes = wc.run_harness_lines("resolve", inp, out, scenarios, timeout=max(60, len(scenarios) // 8), max_crashes=6)
    for idx, reason in crashes:
        sc = scenarios[idx]
        if pid in ("C08", "C10") or "exit status" in reason:       # termination is C08's and - for alias loops - C10's
            v.violation("a resolution did not terminate, or took the process down (%s)" % reason,
                        {"mode": sc["mode"], "questions": sc["questions"], "zones": wc.shrink(sc["zones"], 10),
                         "table_size": len(sc["table"])})
        else:
            v.notes["non_terminating_resolutions_see_C08"] = v.notes.get("non_terminating_resolutions_see_C08", 0) + 1
    lines = []
    for o in obs:
        if o.get("ev") == "panic":
            v.violation("the resolver harness panicked outside a resolution", {"scenario": wc.shrink(o.get("in"), 10)})
            continue
        lines.append(normalise(o))
    path = os.path.join(wd, name + ".trace.ndjson")
    rejects = []
    drift = 0
    for lo in range(0, len(lines), chunk):
        part = lines[lo:lo + chunk]
        write_ndjson(path, part)
        r = tlc("ResolveTrace", "ResolveTrace.cfg", workers=1, env={"TRACE": path}, dfs=True, timeout=3400, xmx="12g")
        vlib.require_ok(r, name)
        v.transitions += r.generated
        rej = r.tagged_raw("REJECT")
        if r.violated and not rej:
            raise vlib.ToolError("trace not consumed: " + r.out[-1500:])
        for x in rej:
            i, k, why = [y.strip().strip('"') for y in x.split(",")]
            rejects.append((lo + int(i) - 1, int(k) - 1, why))
        drift += len(r.tagged_raw("DRIFT"))
    v.notes["drift_lines"] = v.notes.get("drift_lines", 0) + drift
    v.traces += len(lines)
    nruns = sum(len(l["runs"]) for l in lines)
    v.evaluations += nruns
    others = {}
    for (i, k, why0) in rejects:
        why, _, fp = why0.partition(":")
        if why == pid:
            line = lines[i]
            run = line["runs"][k]
            v.violation("resolution violates %s" % pid,
                        {"mode": line["mode"], "protocol": line["protocol"], "tag": line.get("tag"),
                         "zones": wc.shrink(line["zones"], 12), "cache": wc.shrink(line["cache"], 12),
                         "question": run["q"], "result": run["result"], "t": [run["t0"], run["t1"]],
                         "exchanges": wc.shrink(run["exchanges"], 16)},
                        fingerprint=fp or None)
        else:
            others[why] = others.get(why, 0) + 1
    if others:
        v.notes["rejections_owned_by_other_properties"] = others
    return lines, rejects


def adversarial_universe():
    www, ex = ["www", "ex", "com"], ["ex", "com"]
    R = lambda n, t, d, tg=None: {"name": n, "type": t, "data": d, "target": tg or [], "ttl": 300}
    return [R(www, "A", "1.1.1.1"), R(www, "A", "1.1.1.2"), R(www, "CNAME", "t.ex.com.", ["t", "ex", "com"]),
            R(["t", "ex", "com"], "A", "2.2.2.2"), R(["t", "ex", "com"], "CNAME", "u.other.", ["u", "other"]),
            R(["u", "other"], "A", "3.3.3.3"), R(["u", "other"], "CNAME", "www.ex.com.", www),
            R(["off", "ex", "com"], "CNAME", "evil.x.", ["evil", "x"]), R(["evil", "x"], "A", "6.6.6.6"),
            # aliases with a foreign owner that share their TARGET with an alias on the path
            R(["login", "bank", "com"], "CNAME", "t.ex.com.", ["t", "ex", "com"]), R(["x", "other"], "CNAME", "u.other.", ["u", "other"]),
            R(www, "TXT", "x00"), R(www, "AAAA", "::1"), R(["bank", "com"], "A", "6.6.6.7"),
            R(ex, "NS", "ns1.ex.com.", ["ns1", "ex", "com"]), R(ex, "NS", "ns2.other.", ["ns2", "other"]),
            R(["com"], "NS", "a.gtld.", ["a", "gtld"]), R([], "NS", "a.root.", ["a", "root"]),
            R(["other", "org"], "NS", "ns.evil.", ["ns", "evil"]), R(["ex", "net"], "NS", "ns1.ex.com.", ["ns1", "ex", "com"]),
            R(www, "NS", "ns1.ex.com.", ["ns1", "ex", "com"]), R(["sub", "www", "ex", "com"], "NS", "ns.evil.", ["ns", "evil"]),
            R(["ns1", "ex", "com"], "A", "7.7.7.7"), R(["ns1", "ex", "com"], "AAAA", "::7"), R(["ns", "evil"], "A", "8.8.8.8"),
            R(["ns2", "other"], "AAAA", "::9"), R(["a", "gtld"], "A", "9.9.9.9"),
            R(ex, "SOA", "m. r. 1 2 3 4 5"), R(["com"], "SOA", "m. r. 1 2 3 4 5"), R(["other"], "SOA", "m. r. 1 2 3 4 5"),
            R(www, "SOA", "m. r. 1 2 3 4 5")]


HEADER_FAULTS = [{"kind": "wrong_id"}, {"kind": "tc"}, {"kind": "rcode", "rcode": 2}, {"kind": "rcode", "rcode": 5},
                 {"kind": "not_response"}, {"kind": "opcode"}, {"kind": "no_question"},
                 {"kind": "other_question", "question": {"name": ["other", "name"], "type": "A"}}]


def end_to_end_c06(v, wd, r, tier):
    """recursive resolutions against an attacker that answers with any mixture of records, with and without header
    mismatches: nothing irrelevant reaches the cache or the answer (ResolveTrace C06OK)"""
    univ = adversarial_universe()
    hints = zone([], [rr([], "NS", "a.root.", ["a", "root"], ttl=3600), rr(["a", "root"], "A", "10.0.0.1", ttl=3600)], auth=False)
    scs = []
    # which host each address belongs to (the depth of the delegation in use at an exchange is derived from it)
    hostaddrs = [{"host": ["a", "root"], "v": 4, "addr": "10.0.0.1"}, {"host": ["ns1", "ex", "com"], "v": 4, "addr": "7.7.7.7"},
                 {"host": ["a", "gtld"], "v": 4, "addr": "9.9.9.9"}, {"host": ["ns", "evil"], "v": 4, "addr": "8.8.8.8"},
                 {"host": ["ns1", "ex", "com"], "v": 6, "addr": "::7"}, {"host": ["ns2", "other"], "v": 6, "addr": "::9"}]
    NS = lambda owner, host: {"name": owner, "type": "NS", "data": dotted(host), "target": host, "ttl": 300}
    Ar = lambda host, a: {"name": host, "type": "A", "data": a, "target": [], "ttl": 300}
    n = 300 if tier == "quick" else 3000
    for i in range(n):
        table = []
        staircase = i % 3 == 0
        for addr in ("10.0.0.1", "7.7.7.7", "9.9.9.9", "8.8.8.8"):
            for q in (["www", "ex", "com"], ["t", "ex", "com"], ["u", "other"], ["ns1", "ex", "com"], ["a", "gtld"], ["ns2", "other"]):
                for t in ("A", "AAAA", "TXT"):
                    rep = {"rcode": r.choice([0, 0, 0, 3]), "aa": r.random() < 0.5, "answers": [], "authority": [], "additional": []}
                    for _k in range(r.randint(0, 6)):
                        rep[r.choice(["answers", "answers", "authority", "additional"])].append(r.choice(univ))
                    if staircase and q[-1] == "com":
                        # a plausible referral at each depth (so that deep exchanges happen), spiced with NS sets of the
                        # depth already reached, of shallower depths and of non-ancestors, each with glue
                        rep = {"rcode": 0, "aa": False, "answers": [], "authority": [], "additional": []}
                        ref = {"10.0.0.1": (["com"], ["a", "gtld"], "9.9.9.9"), "9.9.9.9": (["ex", "com"], ["ns1", "ex", "com"], "7.7.7.7")}.get(addr)
                        if ref and (addr == "10.0.0.1" or r.random() < 0.6):
                            rep["authority"].append(NS(ref[0], ref[1]))
                            rep["additional"].append(Ar(ref[1], ref[2]))
                        elif not ref and r.random() < 0.6:
                            rep["aa"] = True
                            rep["answers"] += [x for x in univ if x["name"] == q and x["type"] == t][:2]
                        same = {"10.0.0.1": [], "9.9.9.9": ["com"], "7.7.7.7": ["ex", "com"], "8.8.8.8": ["ex", "com"]}[addr]
                        for owner in r.sample([same, same[1:], [], ["other"], ["www", "ex", "com"]], r.randint(0, 3)):
                            host = r.choice([["ns", "evil"], ["a", "gtld"], ["ns1", "ex", "com"]])
                            rep[r.choice(["authority", "authority", "answers"])].append(NS(owner, host))
                            rep["additional"].append(Ar(host, {"ns.evil": "8.8.8.8", "a.gtld": "9.9.9.9", "ns1.ex.com": "7.7.7.7"}[".".join(host)]))
                    table.append({"addr": addr, "qname": q, "qtype": t, "reply": rep})
        qs = []
        for _q in range(2):
            q = {"name": ["www", "ex", "com"], "type": r.choice(["A", "A", "TXT", "AAAA"])}
            if r.random() < 0.5:
                q["faults"] = {str(r.randint(0, 3)): r.choice(HEADER_FAULTS)}
            qs.append(q)
        scs.append(scenario([hints], [], "recursive", qs, table=table, default={"rcode": 2}, tag="", hostaddrs=hostaddrs))
    # directed: at depth 2 and at depth 3 the server in use hands out an NS set of the depth already reached (and its
    # host answers), nothing else
    www = ["www", "ex", "com"]
    evil_answer = {"rcode": 0, "aa": True, "answers": [{"name": www, "type": "A", "data": "6.6.6.6", "target": [], "ttl": 60}],
                   "authority": [], "additional": []}
    ref = lambda owner, host, a: {"rcode": 0, "aa": False, "answers": [], "authority": [NS(owner, host)], "additional": [Ar(host, a)]}
    t2 = [{"addr": "10.0.0.1", "qname": www, "qtype": "A", "reply": ref(["com"], ["a", "gtld"], "9.9.9.9")},
          {"addr": "9.9.9.9", "qname": www, "qtype": "A", "reply": ref(["com"], ["ns", "evil"], "8.8.8.8")},
          {"addr": "8.8.8.8", "qname": www, "qtype": "A", "reply": evil_answer}]
    t3 = [t2[0], {"addr": "9.9.9.9", "qname": www, "qtype": "A", "reply": ref(["ex", "com"], ["ns1", "ex", "com"], "7.7.7.7")},
          {"addr": "7.7.7.7", "qname": www, "qtype": "A", "reply": ref(["ex", "com"], ["ns", "evil"], "8.8.8.8")}, t2[2]]
    for tab in (t2, t3):
        scs.append(scenario([hints], [], "recursive", [{"name": www, "type": "A"}], table=tab, default={"rcode": 2}, tag="same depth",
                            hostaddrs=hostaddrs))
    run_scenarios(v, "C06", wd, "e2e", scs)
    v.notes["end_to_end_resolutions"] = n * 2 + 2


# ---------------------------------------------------------------------------
# local configurations (C01, C10)

def local_config(r):
    """nested local zones (authoritative and not), wildcards, aliases, delegations, blocklist entries"""
    lan = ["lan"]
    sub = ["sub", "lan"]
    names = [["a"] + lan, ["b"] + lan, ["www"] + lan, ["c", "sub", "lan"], ["d", "sub", "lan"], lan, sub,
             ["deep", "a", "lan"], ["ext", "example"], ["blocked", "example"], ["tgt", "example"]]
    zones = []
    root_recs = [rr([], "NS", "a.root.", ["a", "root"], ttl=3600), rr(["a", "root"], "A", "10.0.0.1", ttl=3600)]
    for _ in range(r.randint(0, 4)):
        n = r.choice(names)
        t = r.choice(["A", "A", "AAAA", "CNAME", "TXT"])
        if t == "CNAME":
            tg = r.choice(names)
            root_recs.append(rr(n, "CNAME", dotted(tg), tg, wild=r.random() < 0.15))
        else:
            d = {"A": r.choice(["0.0.0.0", "10.9.9.1", "10.9.9.2"]), "AAAA": r.choice(["::", "fd00::9"]), "TXT": "x6869"}[t]
            root_recs.append(rr(n, t, d, wild=r.random() < 0.15, ttl=5))
    zones.append(zone([], dedup(root_recs), auth=False))

    def auth_zone(apex, cands):
        recs = []
        for _ in range(r.randint(1, 6)):
            n = r.choice(cands)
            x = r.random()
            if x < 0.2:
                tg = r.choice(names)
                recs.append(rr(n, "CNAME", dotted(tg), tg, wild=r.random() < 0.2))
            elif x < 0.3 and n != apex:
                recs.append(rr(n, "NS", "ns.ext.example.", ["ns", "ext", "example"]))
            elif x < 0.4:
                recs.append(rr(apex, "NS", dotted(["ns"] + apex), ["ns"] + apex))
            else:
                t = r.choice(["A", "A", "AAAA", "TXT", "MX"])
                d = {"A": "10.1.%d.%d" % (len(apex), r.randint(1, 3)), "AAAA": "fd00::1:%d" % r.randint(1, 3), "TXT": "x00",
                     "MX": "10 " + dotted(["mail"] + apex)}[t]
                recs.append(rr(n, t, d, ["mail"] + apex if t == "MX" else None, wild=r.random() < 0.15))
        return zone(apex, dedup(recs), auth=True, minimum=r.choice([0, 60, 300]))
    if r.random() < 0.85:
        zones.append(auth_zone(lan, [x for x in names if x[-1] == "lan"] + [["q", "lan"]]))
    if r.random() < 0.4:
        zones.append(auth_zone(sub, [x for x in names if x[-2:] == sub] + [["z", "sub", "lan"]]))
    cache = []
    for _ in range(r.randint(0, 4)):
        n = r.choice(names)
        t = r.choice(["A", "A", "CNAME", "AAAA", "TXT"])
        if t == "CNAME":
            tg = r.choice(names)
            c = rr(n, "CNAME", dotted(tg), tg, ttl=200)
        else:
            c = rr(n, t, {"A": "6.6.6.%d" % r.randint(1, 3), "AAAA": "::6", "TXT": "x66"}[t], ttl=200)
        c.pop("wild")
        if not any(x["name"] == c["name"] and x["type"] == "CNAME" for x in cache if c["type"] == "CNAME"):
            cache.append(c)
    qnames = names + [["nx", "lan"], ["nx", "sub", "lan"], ["w", "a", "lan"], ["other", "example"]]
    return zones, cache, qnames


def upstream_for(r, qnames, addrs, names_local):
    """an upstream that answers any question, sometimes through an alias to a name that local data owns (F13)"""
    table = []
    for addr in addrs:
        for n in qnames:
            for t in ("A", "AAAA", "TXT", "CNAME", "MX", "NS", "ANY"):
                x = r.random()
                ans = []
                if x < 0.25:
                    tg = r.choice(names_local)
                    ans = [{"name": n, "type": "CNAME", "data": dotted(tg), "target": tg, "ttl": 300},
                           {"name": tg, "type": t if t not in ("ANY", "CNAME") else "A", "data":
                            {"A": "6.6.6.9", "AAAA": "::69", "TXT": "x6666", "MX": "10 evil.example.", "NS": "evil.example."}.get(t, "6.6.6.9"),
                            "target": ["evil", "example"] if t in ("MX", "NS") else [], "ttl": 300}]
                elif x < 0.8 and t == "ANY":
                    ans = [{"name": n, "type": "A", "data": "7.7.7.9", "target": [], "ttl": 300},
                           {"name": n, "type": "AAAA", "data": "::79", "target": [], "ttl": 300},
                           {"name": n, "type": "TXT", "data": "x7979", "target": [], "ttl": 300}]
                elif x < 0.8:
                    ty = t if t not in ("ANY", "CNAME") else "A"
                    ans = [{"name": n, "type": ty, "data": {"A": "7.7.7.%d" % r.randint(1, 2), "AAAA": "::77", "TXT": "x77",
                                                            "MX": "10 mx.example.", "NS": "ns.example."}.get(ty, "7.7.7.7"),
                            "target": {"MX": ["mx", "example"], "NS": ["ns", "example"]}.get(ty, []), "ttl": 300}]
                table.append({"addr": addr, "qname": n, "qtype": t,
                              "reply": {"rcode": 0, "aa": True, "answers": ans,
                                        "authority": [] if ans else [{"name": [], "type": "SOA", "data": "m. r. 1 2 3 4 5",
                                                                      "target": [], "ttl": 60}],
                                        "additional": []}})
    return table


def local_scenarios(r, n):
    out = []
    for i in range(n):
        zones, cache, qnames = local_config(r)
        mode = r.choice(["auth", "auth", "recursive", "forwarding", "forwarding"])
        local = [(x["name"], x["type"]) for z in zones for x in z["recs"] if x["type"] not in ("SOA",) and x["name"]]
        owned = [x["name"] for z in zones if z["auth"] for x in z["recs"]] + [z["apex"] for z in zones if z["auth"]]
        # directed cache contents: an alias into a locally owned name together with (wrong) records for that name,
        # and (wrong) records for names that local data defines
        if owned and r.random() < 0.6:
            t = r.choice(owned)
            x = r.choice([["ext", "example"], ["tgt", "example"], ["other", "example"]])
            ty = r.choice(["A", "TXT", "AAAA"])
            cache = [c for c in cache if not (c["name"] == x and c["type"] == "CNAME")]
            cache.append({"name": x, "type": "CNAME", "data": dotted(t), "target": t, "ttl": 200})
            cache.append({"name": t, "type": ty, "data": {"A": "6.6.6.6", "TXT": "x666666", "AAAA": "::66"}[ty], "target": [], "ttl": 200})
            local.append((x, ty))
        if local and r.random() < 0.5:
            nm, ty = r.choice(local)
            if ty in ("A", "AAAA", "TXT"):
                cache.append({"name": nm, "type": ty, "data": {"A": "6.6.6.5", "TXT": "x6665", "AAAA": "::65"}[ty], "target": [], "ttl": 200})
        qs = []
        for _ in range(r.randint(3, 7)):
            if local and r.random() < 0.65:
                nm, ty = r.choice(local)
                qs.append({"name": nm, "type": r.choice([ty, ty, "ANY", "ANY", "A", "CNAME"])})
            else:
                qs.append({"name": r.choice(qnames), "type": r.choice(["A", "A", "AAAA", "CNAME", "TXT", "NS", "ANY", "MX", "SOA"])})
        local_names = [x["name"] for z in zones for x in z["recs"]] or [["lan"]]
        table = upstream_for(r, qnames + [["ns", "ext", "example"], ["a", "root"]], ["10.0.0.1", "10.9.9.9"], local_names) \
            if mode != "auth" else []
        out.append(scenario(zones, cache, mode, qs, table=table, default={"rcode": 2}))
    return out


def model_local_scenarios(gens):
    """MCLocal's configurations (root zone, authoritative zone b.a., cache) as authoritative-only scenarios"""
    out = []
    qnames = [["a"], ["b", "a"], ["c", "b", "a"], ["d", "b", "a"], ["x"], ["q", "b", "a"]]
    for g in gens:
        root = zone([], g["root"], auth=False)
        az = {"apex": ["b", "a"], "auth": True,
              "soa": {"name": ["b", "a"], "wild": False, "type": "SOA", "data": "m. r. 1 2 3 4 60", "target": [], "ttl": 60},
              "recs": g["auth"]}
        qs = [{"name": n, "type": t} for n in qnames for t in ("A", "CNAME", "NS", "ANY")]
        out.append(scenario([root, az], g["cache"], "auth", qs))
    return out


# ---------------------------------------------------------------------------
# alias graphs (C10)

def alias_scenarios(r, n):
    out = []
    for i in range(n):
        k = r.choice([2, 3, 4, 5, 8, 31, 32, 33, 40])
        names = [["n%d" % j, "lan"] for j in range(k + 1)]
        zone_links, root_links, cache_links, up_links = [], [], [], []
        shape = r.choice(["chain", "chain", "cycle", "branch", "long"])
        links = [(j, j + 1) for j in range(k)]
        if shape == "cycle":
            links.append((k, r.randint(0, k - 1)))
        if shape == "branch" and k >= 3:
            links.append((1, k))
        auth_lan = r.random() < 0.6
        # now and then the whole graph lives upstream and comes back in one reply (bulk, below): chains, branches and
        # loops that do and do not pass through the question name, met by the resolver in a single answer section
        allup = k <= 8 and r.random() < 0.2
        if allup:
            auth_lan = False
        for (a, b) in links:
            where = r.choice(["zone", "zone", "root", "cache", "up"]) if k <= 8 else r.choice(["zone", "zone", "zone", "cache"])
            if allup:
                where = "up"
            rec = rr(names[a], "CNAME", dotted(names[b]), names[b])
            if where == "zone" and auth_lan:
                zone_links.append(rec)
            elif where in ("zone", "root"):
                root_links.append(rec)
            elif where == "cache":
                c = dict(rec)
                c.pop("wild")
                cache_links.append(c)
            else:
                up_links.append(rec)
        final = rr(names[k], "A", "10.5.5.5")
        fw = r.choice(["zone", "root", "cache", "up", "none"])
        zones = []
        root_recs = [rr([], "NS", "a.root.", ["a", "root"], ttl=3600), rr(["a", "root"], "A", "10.0.0.1", ttl=3600)] + root_links
        if fw == "root" or (fw == "zone" and not auth_lan):
            root_recs.append(final)
        zones.append(zone([], dedup(root_recs), auth=False))
        if auth_lan:
            zones.append(zone(["lan"], dedup(zone_links + ([final] if fw == "zone" else [])), auth=True))
        cache = list(cache_links)
        if fw == "cache":
            c = dict(final)
            c.pop("wild")
            cache.append(c)
        mode = r.choice(["auth", "recursive", "forwarding"]) if not auth_lan or not up_links else "auth"
        # a wildcard alias in the local data: names one and two labels beneath it are asked as well
        wild_qs = []
        if r.random() < 0.3:
            w = rr(["dyn", "lan"], "CNAME", dotted(names[0]), names[0], wild=True)
            if auth_lan:
                zones[-1]["recs"].append(w)
            else:
                zones[0]["recs"].append(w)
            wild_qs = [{"name": ["a", "dyn", "lan"], "type": "A"}, {"name": ["a", "b", "dyn", "lan"], "type": "A"},
                       {"name": ["a", "b", "c", "dyn", "lan"], "type": "TXT"}]
        # upstream: every alias it holds, one per reply (well-behaved, A1), and the final record; or (bulk) the whole
        # chain it holds from the asked name on in one reply, in chain order - loops included, as a recursive upstream
        # or an attacker would send them
        bulk = allup or r.random() < 0.35
        if allup:
            mode = r.choice(["recursive", "forwarding"])
            fw = r.choice(["up", "none"])
        table = []
        if mode != "auth":
            for addr in ("10.0.0.1", "10.9.9.9"):
                for j, nm in enumerate(names):
                    for t in ("A", "TXT", "CNAME", "ANY"):
                        ans = [{k2: v2 for k2, v2 in x.items() if k2 != "wild"} for x in up_links if x["name"] == nm]
                        if bulk and ans and t != "CNAME":
                            seen_n, cur = {tuple(nm)}, ans[0]["target"]
                            while tuple(cur) not in seen_n:
                                seen_n.add(tuple(cur))
                                nxt = [x for x in up_links if x["name"] == cur]
                                if not nxt:
                                    break
                                ans.append({k2: v2 for k2, v2 in nxt[0].items() if k2 != "wild"})
                                cur = nxt[0]["target"]
                            if fw == "up" and cur == names[k] and t in ("A", "ANY"):
                                ans.append({k2: v2 for k2, v2 in final.items() if k2 != "wild"})
                        if not ans and fw == "up" and j == k and t in ("A", "ANY"):
                            ans = [{k2: v2 for k2, v2 in final.items() if k2 != "wild"}]
                        table.append({"addr": addr, "qname": nm, "qtype": t,
                                      "reply": {"rcode": 0, "aa": True, "answers": ans, "authority": [] if ans else [
                                          {"name": ["lan"], "type": "SOA", "data": "m. r. 1 2 3 4 5", "target": [], "ttl": 60}],
                                          "additional": []}})
        qs = [{"name": names[r.choice([0, 0, 1, k // 2])], "type": r.choice(["A", "A", "TXT", "CNAME", "ANY"])} for _ in range(3)]
        qs += wild_qs
        out.append(scenario(zones, cache, mode, qs, table=table, default={"rcode": 2}))
    return out
