"""The recursive resolver as a state machine (specs/Recursive.tla): exhaustive exploration per universe (MCRecursive)
and validation of recorded resolutions as behaviours of the model (RecursiveTrace).  Shared by C07, C08, C18."""
import copy
import json
import os

import vlib
import rescommon as rc
from vlib import tlc, write_ndjson

CFG = """SPECIFICATION Spec
CONSTANTS
  Limit = %(limit)d
  BuggyF1 = FALSE
  BuggyF3 = FALSE
  BuggyF4 = FALSE
  BuggyF15 = FALSE
  MaxAsk = %(ask)d
  MaxFaults = %(faults)d
  MaxForget = %(forget)d
INVARIANTS %(invs)s
%(props)s
CHECK_DEADLOCK FALSE
"""

OWNER = {"Inv_C01_Local": "C01", "Inv_C01_NotAsked": "C01", "Inv_C07_Truth": "C07", "Act_C07_Closer": "C07", "Inv_C10_Chain": "C10", "Inv_C08_Stack": "C08",
         "Inv_C08_Supplied": "C08", "Live_C08_Ends": "C08", "temporal": "C08", "Inv_C18_Family": "C18"}


def dedup_questions(qs):
    out = []
    for q in qs:
        q2 = {"name": q["name"], "type": q["type"]}
        if q2 not in out:
            out.append(q2)
    return out


def consistent_config(r, depth, families, protocol, glue="mixed", nservers=2, max_questions=40, mode="recursive"):
    u = rc.build_universe(r, depth=depth, nservers=nservers, families=families, glue=glue)
    qs = dedup_questions(u["questions"])
    if len(qs) > max_questions:
        qs = r.sample(qs, max_questions)
    # every zone is reachable in the given mode when every host has an address of a usable family
    reachable = families == "dual" or protocol.startswith("prefer") or mode == "forwarding"
    return {"universe": u["universe"], "zones": [u["hints"]], "protocol": protocol, "questions": qs, "mode": mode,
            "expect_truth": reachable, "names": [list(n) for n in u["names"]], "hostaddrs": u["hostaddrs"],
            "kind": "%s, consistent depth %d %s %s glue=%s" % (mode, depth, families, protocol, glue)}


def hostile_config(r, depth, protocol, limit=32):
    """a universe that misbehaves: alias loops (through and not through the question name), a lame zone (its servers
    do not serve it), a delegation to name servers that do not exist, a delegation whose in-zone server has no glue"""
    u = rc.build_universe(r, depth=depth, nservers=2, families="dual", glue="mixed")
    uni = copy.deepcopy(u["universe"])
    zones = {tuple(z["apex"]): z for z in uni["zones"]}
    leafs = [a for a in zones if a]
    qs = dedup_questions(u["questions"])
    a = list(r.choice(leafs))
    z = zones[tuple(a)]
    z["recs"] += [rc.rr(["l1"] + a, "CNAME", rc.dotted(["l2"] + a), ["l2"] + a),
                  rc.rr(["l2"] + a, "CNAME", rc.dotted(["l1"] + a), ["l1"] + a),
                  rc.rr(["into"] + a, "CNAME", rc.dotted(["l1"] + a), ["l1"] + a),
                  rc.rr(["self"] + a, "CNAME", rc.dotted(["self"] + a), ["self"] + a)]
    qs += [{"name": ["l1"] + a, "type": "A"}, {"name": ["into"] + a, "type": "A"}, {"name": ["self"] + a, "type": "TXT"}]
    # a delegation to servers that do not exist, and one to an in-zone server without glue
    z["recs"] += [rc.rr(["ghost"] + a, "NS", rc.dotted(["ns", "nowhere"]), ["ns", "nowhere"], ttl=3600),
                  rc.rr(["noglue"] + a, "NS", rc.dotted(["ns", "noglue"] + a), ["ns", "noglue"] + a, ttl=3600)]
    qs += [{"name": ["www", "ghost"] + a, "type": "A"}, {"name": ["www", "noglue"] + a, "type": "A"}]
    # a delegation to a name server that lives in another zone (its address has to be looked up) and serves nothing here
    far = [h["host"] for h in u["hostaddrs"] if h["host"][-len(a):] != a and h["host"][-1] != "root-servers"]
    if far:
        hb = far[0]
        z["recs"].append(rc.rr(["ext"] + a, "NS", rc.dotted(hb), hb, ttl=3600))
        qs.append({"name": ["www", "ext"] + a, "type": "A"})
    # a lame zone: nobody serves it any more (not the zone with the loops, nor one above it)
    cands = [list(x) for x in leafs if list(x) != a and a[-len(x):] != list(x)]
    lame = r.choice(cands) if cands else ["nonexistent"]
    for s in uni["servers"]:
        s["apexes"] = [x for x in s["apexes"] if x != lame]
    uni["servers"] = [s for s in uni["servers"] if s["apexes"]]
    if len(qs) > 40:
        qs = qs[-14:] + r.sample(qs[:-14], 26)
    return {"universe": uni, "zones": [u["hints"]], "protocol": protocol, "questions": qs, "expect_truth": False,
            "names": [list(n) for n in u["names"]], "hostaddrs": u["hostaddrs"], "mode": "recursive", "limit": limit,
            "kind": "hostile depth %d %s lame=%s%s" % (depth, protocol, ".".join(lame), "" if limit == 32 else " recursion limit %d (model only)" % limit)}


def local_config(r, depth, protocol, mode="recursive"):
    """local data next to the hints: an authoritative zone the universe does not know (with an alias out to a universe
    name and a delegation), an authoritative zone shadowing a universe zone with other data, and override records
    (hosts-file style, in the non-authoritative root zone) for universe names.  No alias of the universe leads into
    a locally owned name (that is known finding F13)."""
    u = rc.build_universe(r, depth=depth, nservers=2, families="dual", glue="mixed")
    leafs = [z["apex"] for z in u["universe"]["zones"] if len(z["apex"]) >= 2] or [z["apex"] for z in u["universe"]["zones"] if z["apex"]]
    tgt = r.choice(leafs)
    shadow = r.choice(leafs)
    aliased = set()
    for z in u["universe"]["zones"]:
        for x in z["recs"]:
            if x["type"] == "CNAME":
                aliased.add(tuple(x["target"]))
    lan = rc.zone(["lan"], [rc.rr(["www", "lan"], "A", "192.168.0.1"), rc.rr(["www", "lan"], "A", "192.168.0.2"),
                            rc.rr(["out", "lan"], "CNAME", rc.dotted(["www"] + tgt), ["www"] + tgt),
                            rc.rr(["in", "lan"], "CNAME", "www.lan.", ["www", "lan"]),
                            rc.rr(["wild", "lan"], "TXT", "x01", wild=True),
                            # a delegation out of the local zone, to a name server that serves nothing
                            rc.rr(["ext", "lan"], "NS", "gw.lan.", ["gw", "lan"], ttl=3600),
                            rc.rr(["gw", "lan"], "A", "10.77.0.1", ttl=3600), rc.rr(["gw", "lan"], "AAAA", "fd00::77:1", ttl=3600),
                            # aliases into a second authoritative local zone NESTED below this one
                            rc.rr(["cam", "lan"], "CNAME", "cam1.iot.lan.", ["cam1", "iot", "lan"]),
                            rc.rr(["nocam", "lan"], "CNAME", "gone.iot.lan.", ["gone", "iot", "lan"])])
    iot = rc.zone(["iot", "lan"], [rc.rr(["cam1", "iot", "lan"], "A", "192.168.7.1"), rc.rr(["cam1", "iot", "lan"], "A", "192.168.7.2")],
                  minimum=120)
    zones = [lan, iot]
    qs = [{"name": ["www", "lan"], "type": "A"}, {"name": ["out", "lan"], "type": "A"}, {"name": ["in", "lan"], "type": "A"},
          {"name": ["nope", "lan"], "type": "A"}, {"name": ["www", "lan"], "type": "TXT"}, {"name": ["a", "wild", "lan"], "type": "TXT"},
          {"name": ["out", "lan"], "type": "TXT"}, {"name": ["cam", "ext", "lan"], "type": "A"},
          {"name": ["www", "lan"], "type": "ANY"}, {"name": ["cam", "lan"], "type": "A"}, {"name": ["cam", "lan"], "type": "TXT"},
          {"name": ["nocam", "lan"], "type": "A"}, {"name": ["cam1", "iot", "lan"], "type": "A"}]
    if tuple(["www"] + shadow) not in aliased and tuple(["txt"] + shadow) not in aliased:
        zones.append(rc.zone(shadow, [rc.rr(["www"] + shadow, "A", "10.66.0.1"), rc.rr(["only"] + shadow, "TXT", "x02")]))
        qs += [{"name": ["www"] + shadow, "type": "A"}, {"name": ["txt"] + shadow, "type": "TXT"},
               {"name": ["only"] + shadow, "type": "TXT"}, {"name": ["www"] + shadow, "type": "AAAA"}]
    hints = copy.deepcopy(u["hints"])
    over = [a for a in leafs if a != shadow and tuple(["txt"] + a) not in aliased]
    for a in over[:2]:
        hints["recs"].append(rc.rr(["txt"] + a, "A", "0.0.0.0"))         # blocklist entry for a name the universe knows
        qs += [{"name": ["txt"] + a, "type": "A"}, {"name": ["txt"] + a, "type": "TXT"}, {"name": ["txt"] + a, "type": "ANY"}]
    # ... and for a name the universe holds OTHER records of the same type for (an ANY answer from upstream carries them)
    for a in [x for x in leafs if x != shadow and tuple(["www"] + x) not in aliased][:1]:
        hints["recs"].append(rc.rr(["www"] + a, "A", "0.0.0.0"))
        qs += [{"name": ["www"] + a, "type": "A"}, {"name": ["www"] + a, "type": "ANY"}, {"name": ["www"] + a, "type": "AAAA"}]
    zones.append(hints)
    uq = dedup_questions(u["questions"])
    qs = dedup_questions(qs + r.sample(uq, min(len(uq), 10)))
    return {"universe": u["universe"], "zones": zones, "protocol": protocol, "questions": qs, "mode": mode,
            "names": [list(n) for n in u["names"]], "hostaddrs": u["hostaddrs"],
            "expect_truth": False, "kind": "%s, local zones lan. + %s + overrides, depth %d %s" % (mode, rc.dotted(shadow), depth, protocol)}


def plans(r, tier):
    """(config, MaxAsk, MaxFaults, MaxForget)"""
    P = ["only-v4", "prefer-v4", "prefer-v6", "only-v6"]
    out = []
    if tier == "quick":
        out.append((consistent_config(r, 2, "mixed", r.choice(["prefer-v4", "prefer-v6"])), 2, 1, 0))
        out.append((consistent_config(r, 3, "dual", r.choice(P), glue="out", max_questions=24), 2, 1, 0))
        out.append((consistent_config(r, 2, "dual", r.choice(P), max_questions=16), 2, 0, 1))
        out.append((hostile_config(r, 2, r.choice(P)), 1, 2, 0))
        out.append((consistent_config(r, 2, "dual", "prefer-v4", max_questions=30, mode="forwarding"), 2, 1, 1))
        out.append((local_config(r, 2, r.choice(P), mode="recursive"), 2, 1, 0))
        out.append((local_config(r, 2, r.choice(P), mode="forwarding"), 2, 1, 0))
    else:
        for i in range(6):
            out.append((consistent_config(r, r.choice([2, 3, 3, 4]), r.choice(["mixed", "dual"]), r.choice(P),
                                          glue=r.choice(["mixed", "out", "in"]), nservers=r.choice([2, 3]),
                                          max_questions=30), 2, 2, 0))
        for i in range(3):
            out.append((consistent_config(r, r.choice([2, 3]), "dual", r.choice(P), max_questions=14), 2, 1, 2))
        out.append((consistent_config(r, 2, "dual", r.choice(P), max_questions=8), 3, 1, 1))
        for i in range(4):
            out.append((hostile_config(r, r.choice([2, 3]), r.choice(P)), 2, 2, 1))
        # the recursion limit itself (the code's limit of 32 is out of reach of an exhaustive exploration: the model is
        # explored with a limit of 2 and 3; these configurations are not replayed into the real resolver)
        for lim in (2, 3):
            c = consistent_config(r, 2, "dual", r.choice(P), max_questions=40)
            c.update({"limit": lim, "expect_truth": False, "kind": c["kind"] + ", recursion limit %d (model only)" % lim})
            out.append((c, 1, 1, 0))
        for i in range(2):
            out.append((consistent_config(r, r.choice([2, 3]), "dual", "prefer-v4", max_questions=40, mode="forwarding"), 3, 2, 1))
        for mode in ("recursive", "forwarding", "recursive"):
            out.append((local_config(r, r.choice([2, 3]), r.choice(P), mode=mode), 2, 1, 1))
    return out


def model_check(v, pid, wd, r, tier, only=None, plan=None):
    """MCRecursive over the planned universes with the invariants of every property (one exploration serves all);
    a violated invariant is reported by the check that owns it."""
    invs = "Inv_C01_Local Inv_C01_NotAsked Inv_C07_Truth Inv_C10_Chain Inv_C08_Stack Inv_C08_Supplied Inv_C18_Family"
    props = "PROPERTIES Act_C07_Closer Live_C08_Ends"
    runs = []
    seen = v.notes.setdefault("model_locations_and_outcomes_reached", [])
    for (cfg, ask, faults, forget) in (plan if plan is not None else plans(r, tier)):
        if only and not any(o in cfg["kind"] for o in only):
            continue
        witness = "hostile" in cfg["kind"] and ask == 1          # a small exploration: print what it reaches
        path = os.path.join(wd, "mcrec-config.ndjson")
        write_ndjson(path, [cfg])
        res = tlc("MCRecursive", None, env={"CONFIG": path}, timeout=3000, xmx="10g", workers=8 if tier == "quick" else None,
                  cfg_text=CFG % {"limit": cfg.get("limit", 32), "ask": ask, "faults": faults, "forget": forget,
                                  "invs": invs + (" Inv_Witness" if witness else ""), "props": props})
        v.add_tlc(res)
        for x in set(res.tagged_raw("PC")) | set(res.tagged_raw("OUT")):
            if x not in seen:
                seen.append(x)
        runs.append({"universe": cfg["kind"], "zones": len(cfg["universe"]["zones"]), "questions": len(cfg["questions"]),
                     "MaxAsk": ask, "MaxFaults": faults, "MaxForget": forget, "distinct_states": res.distinct,
                     "depth": res.depth, "wall_s": round(res.wall, 1)})
        if res.violated:
            owner = OWNER.get(res.violated, pid)
            if owner == pid:
                v.violation("the resolver model violates %s (%s) in an explored universe" % (pid, res.violated),
                            {"config": cfg, "MaxAsk": ask, "MaxFaults": faults, "MaxForget": forget,
                             "tlc_counterexample_tail": res.out[-6000:]})
            else:
                v.notes.setdefault("model_violations_owned_by_other_properties", []).append(res.violated)
        elif not res.ok:
            raise vlib.ToolError("MCRecursive: " + str(res.error)[:2000])
    v.notes["model_runs"] = runs
    if any("hostile" in x["universe"] and x["MaxAsk"] == 1 for x in runs):
        core = ['"R", "enter"', '"R", "loop", TRUE', '"R", "udp"', '"R", "tcp"', '"DeadEnd"', 'TRUE, "NonAuthoritative"']
        more = ['"R", "loop", FALSE', '"R", "wait_ip"', '"R", "wait_cname"', '"I", "next"', '"I", "wait"', '"DuplicateQuestion"']
        missing = [n for n in core if not any(n in x for x in seen)]
        if missing:
            raise vlib.ToolError("vacuous model exploration: never reached %s" % missing)
        v.notes["model_locations_not_reached_in_the_witness_run"] = [n for n in more if not any(n in x for x in seen)]
    seen.sort()
    return runs


def conformance(v, wd, lines, chunk=60):
    """RecursiveTrace: each recorded recursive scenario must be a behaviour of the model.  Non-acceptance is DRIFT
    (the code-shaped model no longer describes the code), reported in the evidence, never a violation."""
    elig = [i for i, ln in enumerate(lines) if ln.get("mode") in ("recursive", "forwarding")]
    accepted = set()
    gen = 0
    path = os.path.join(wd, "rectrace.ndjson")
    for lo in range(0, len(elig), chunk):
        part = elig[lo:lo + chunk]
        write_ndjson(path, [lines[i] for i in part])
        res = tlc("RecursiveTrace", "RecursiveTrace.cfg", workers=4, env={"TRACE": path}, timeout=3000, xmx="10g",
                  extra=["-continue"])
        if res.violated:
            v.notes.setdefault("model_invariant_violated_on_recorded_behaviour", []).append(res.violated)
        elif not res.ok:
            raise vlib.ToolError("RecursiveTrace: " + str(res.error)[:2000])
        gen += res.generated
        for x in res.tagged_raw("ACCEPT"):
            accepted.add(part[int(x.strip()) - 1])
    v.transitions += gen
    missing = [i for i in elig if i not in accepted]
    mc = v.notes.setdefault("model_conformance", {"scenarios": 0, "accepted_as_model_behaviours": 0, "not_accepted": []})
    mc["scenarios"] += len(elig)
    mc["accepted_as_model_behaviours"] += len(accepted)
    mc["not_accepted"] += [{"tag": lines[i].get("tag", ""), "mode": lines[i]["mode"], "questions": [x["q"] for x in lines[i]["runs"]]}
                           for i in missing[:5]]
    return len(elig), len(accepted), missing


def explore(v, pid, wd, r, tier, only=None):
    """one plan, three uses: TLC explores the state machine in each configuration (MC); the real resolver is run in
    the same configurations (GEN) and validated against the declarative properties; its runs are validated as
    behaviours of the state machine (TV)."""
    plan = plans(r, tier)
    model_check(v, pid, wd, r, tier, only=only, plan=plan)
    lines = replay(v, pid, wd, r, tier, only=only, plan=plan)
    conformance(v, wd, lines, chunk=200)
    return lines


def replay(v, pid, wd, r, tier, only=None, name="mcreplay", plan=None):
    """GEN direction for MCRecursive: the configurations the model was explored in are given to the REAL resolver -
    every question on a fresh cache, and seeded pairs / triples of questions sharing the cache - with the upstream
    scripted from the same universe (ReplyTable).  The runs are validated like every other recorded resolution
    (ResolveTrace: the declarative properties; RecursiveTrace: behaviour of the state machine)."""
    cfgs = [c for (c, _, _, _) in (plan if plan is not None else plans(r, tier))
            if (not only or any(o in c["kind"] for o in only)) and c.get("limit", 32) == 32]
    items = []
    for c in cfgs:
        names = {tuple(n) for n in c["names"]} | {tuple(q["name"]) for q in c["questions"]}
        for z in c["zones"]:
            for x in z["recs"]:
                names.add(tuple(x["name"]))
                if x["target"]:
                    names.add(tuple(x["target"]))
        types = sorted({q["type"] for q in c["questions"]} | {"A", "AAAA"})
        addrs = ["10.9.9.9"] if c["mode"] == "forwarding" else [s["addr"] for s in c["universe"]["servers"]]
        items.append({"universe": c["universe"], "forwarder_ip": "10.9.9.9",
                      "ask": [{"addr": a, "name": list(n), "type": t} for a in addrs for n in sorted(names) for t in types]})
    tables = rc.reply_tables(wd, items)
    scs = []
    for c, tab in zip(cfgs, tables):
        entries = rc.table_entries(tab)
        seqs = [[q] for q in c["questions"]]
        for _ in range(12 if tier == "quick" else 60):
            seqs.append([dict(q) for q in r.sample(c["questions"], min(len(c["questions"]), r.choice([2, 2, 3])))])
        for qs in seqs:
            # C07 is stated for consistent hierarchies: a hostile universe scripts the upstream but is not handed to
            # the validation as "the hierarchy" (its lame servers serve no zone at all, so "strictly closer" is void)
            uni = None if c["kind"].startswith("hostile") else c["universe"]
            scs.append(rc.scenario(c["zones"], [], c["mode"], [dict(q) for q in qs], table=entries, default={"rcode": 5},
                                   protocol=c["protocol"], port=53, universe=uni, expect_truth=c["expect_truth"] and uni is not None,
                                   hostaddrs=c["hostaddrs"], tag="mc-config: " + c["kind"]))
    lines, rejects = rc.run_scenarios(v, pid, wd, name, scs, chunk=150)
    v.notes["model_configurations_replayed_into_the_real_resolver"] = {"configurations": len(cfgs), "scenarios": len(scs)}
    return lines
