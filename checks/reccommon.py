"""The recursive resolver as a state machine (specs/Recursive.tla): exhaustive exploration per universe (MCRecursive)
and validation of recorded resolutions as behaviours of the model (RecursiveTrace).  Shared by C07, C08, C18."""
import copy
import json
import os

import vlib
import rescommon as rc
from vlib import tlc, write_ndjson

CFG = """SPECIFICATION Spec
CONSTANTS
  Limit = %(limit)d
  BuggyF1 = FALSE
  BuggyF3 = FALSE
  BuggyF4 = FALSE
  BuggyF15 = FALSE
  MaxAsk = %(ask)d
  MaxFaults = %(faults)d
  MaxForget = %(forget)d
INVARIANTS %(invs)s
%(props)s
CHECK_DEADLOCK FALSE
"""

OWNER = {"Inv_C07_Truth": "C07", "Act_C07_Closer": "C07", "Inv_C10_Chain": "C07", "Inv_C08_Stack": "C08",
         "Inv_C08_Supplied": "C08", "Live_C08_Ends": "C08", "temporal": "C08", "Inv_C18_Family": "C18"}


def dedup_questions(qs):
    out = []
    for q in qs:
        q2 = {"name": q["name"], "type": q["type"]}
        if q2 not in out:
            out.append(q2)
    return out


def consistent_config(r, depth, families, protocol, glue="mixed", nservers=2, max_questions=40, mode="recursive"):
    u = rc.build_universe(r, depth=depth, nservers=nservers, families=families, glue=glue)
    qs = dedup_questions(u["questions"])
    if len(qs) > max_questions:
        qs = r.sample(qs, max_questions)
    # every zone is reachable in the given mode when every host has an address of a usable family
    reachable = families == "dual" or protocol.startswith("prefer") or mode == "forwarding"
    return {"universe": u["universe"], "zones": [u["hints"]], "protocol": protocol, "questions": qs, "mode": mode,
            "expect_truth": reachable,
            "kind": "%s, consistent depth %d %s %s glue=%s" % (mode, depth, families, protocol, glue)}


def hostile_config(r, depth, protocol):
    """a universe that misbehaves: alias loops (through and not through the question name), a lame zone (its servers
    do not serve it), a delegation to name servers that do not exist, a delegation whose in-zone server has no glue"""
    u = rc.build_universe(r, depth=depth, nservers=2, families="dual", glue="mixed")
    uni = copy.deepcopy(u["universe"])
    zones = {tuple(z["apex"]): z for z in uni["zones"]}
    leafs = [a for a in zones if a]
    qs = dedup_questions(u["questions"])
    a = list(r.choice(leafs))
    z = zones[tuple(a)]
    z["recs"] += [rc.rr(["l1"] + a, "CNAME", rc.dotted(["l2"] + a), ["l2"] + a),
                  rc.rr(["l2"] + a, "CNAME", rc.dotted(["l1"] + a), ["l1"] + a),
                  rc.rr(["into"] + a, "CNAME", rc.dotted(["l1"] + a), ["l1"] + a),
                  rc.rr(["self"] + a, "CNAME", rc.dotted(["self"] + a), ["self"] + a)]
    qs += [{"name": ["l1"] + a, "type": "A"}, {"name": ["into"] + a, "type": "A"}, {"name": ["self"] + a, "type": "TXT"}]
    # a delegation to servers that do not exist, and one to an in-zone server without glue
    z["recs"] += [rc.rr(["ghost"] + a, "NS", rc.dotted(["ns", "nowhere"]), ["ns", "nowhere"], ttl=3600),
                  rc.rr(["noglue"] + a, "NS", rc.dotted(["ns", "noglue"] + a), ["ns", "noglue"] + a, ttl=3600)]
    qs += [{"name": ["www", "ghost"] + a, "type": "A"}, {"name": ["www", "noglue"] + a, "type": "A"}]
    # a lame zone: nobody serves it any more
    lame = list(r.choice(leafs))
    for s in uni["servers"]:
        s["apexes"] = [x for x in s["apexes"] if x != lame]
    uni["servers"] = [s for s in uni["servers"] if s["apexes"]]
    if len(qs) > 40:
        qs = qs[-12:] + r.sample(qs[:-12], 28)
    return {"universe": uni, "zones": [u["hints"]], "protocol": protocol, "questions": qs, "expect_truth": False,
            "mode": "recursive", "kind": "hostile depth %d %s lame=%s" % (depth, protocol, ".".join(lame))}


def plans(r, tier):
    """(config, MaxAsk, MaxFaults, MaxForget)"""
    P = ["only-v4", "prefer-v4", "prefer-v6", "only-v6"]
    out = []
    if tier == "quick":
        out.append((consistent_config(r, 2, "mixed", r.choice(["prefer-v4", "prefer-v6"])), 2, 1, 0))
        out.append((consistent_config(r, 3, "dual", r.choice(P), glue="out", max_questions=24), 2, 1, 0))
        out.append((consistent_config(r, 2, "dual", r.choice(P), max_questions=16), 2, 0, 1))
        out.append((hostile_config(r, 2, r.choice(P)), 1, 2, 0))
        out.append((consistent_config(r, 2, "dual", "prefer-v4", max_questions=30, mode="forwarding"), 2, 1, 1))
    else:
        for i in range(6):
            out.append((consistent_config(r, r.choice([2, 3, 3, 4]), r.choice(["mixed", "dual"]), r.choice(P),
                                          glue=r.choice(["mixed", "out", "in"]), nservers=r.choice([2, 3]),
                                          max_questions=30), 2, 2, 0))
        for i in range(3):
            out.append((consistent_config(r, r.choice([2, 3]), "dual", r.choice(P), max_questions=14), 2, 1, 2))
        out.append((consistent_config(r, 2, "dual", r.choice(P), max_questions=8), 3, 1, 1))
        for i in range(4):
            out.append((hostile_config(r, r.choice([2, 3]), r.choice(P)), 2, 2, 1))
        for i in range(2):
            out.append((consistent_config(r, r.choice([2, 3]), "dual", "prefer-v4", max_questions=40, mode="forwarding"), 3, 2, 1))
    return out


def model_check(v, pid, wd, r, tier):
    """MCRecursive over the planned universes with the invariants of every property (one exploration serves all);
    a violated invariant is reported by the check that owns it."""
    invs = "Inv_C07_Truth Inv_C10_Chain Inv_C08_Stack Inv_C08_Supplied Inv_C18_Family"
    props = "PROPERTIES Act_C07_Closer Live_C08_Ends"
    runs = []
    for (cfg, ask, faults, forget) in plans(r, tier):
        path = os.path.join(wd, "mcrec-config.ndjson")
        write_ndjson(path, [cfg])
        res = tlc("MCRecursive", None, env={"CONFIG": path}, timeout=3000, xmx="10g", workers=8 if tier == "quick" else None,
                  cfg_text=CFG % {"limit": 32, "ask": ask, "faults": faults, "forget": forget, "invs": invs, "props": props})
        v.add_tlc(res)
        runs.append({"universe": cfg["kind"], "zones": len(cfg["universe"]["zones"]), "questions": len(cfg["questions"]),
                     "MaxAsk": ask, "MaxFaults": faults, "MaxForget": forget, "distinct_states": res.distinct,
                     "depth": res.depth, "wall_s": round(res.wall, 1)})
        if res.violated:
            owner = OWNER.get(res.violated, pid)
            if owner == pid:
                v.violation("the resolver model violates %s (%s) in an explored universe" % (pid, res.violated),
                            {"config": cfg, "MaxAsk": ask, "MaxFaults": faults, "MaxForget": forget,
                             "tlc_counterexample_tail": res.out[-6000:]})
            else:
                v.notes.setdefault("model_violations_owned_by_other_properties", []).append(res.violated)
        elif not res.ok:
            raise vlib.ToolError("MCRecursive: " + str(res.error)[:2000])
    v.notes["model_runs"] = runs
    return runs


def conformance(v, wd, lines, chunk=60):
    """RecursiveTrace: each recorded recursive scenario must be a behaviour of the model.  Non-acceptance is DRIFT
    (the code-shaped model no longer describes the code), reported in the evidence, never a violation."""
    elig = [i for i, ln in enumerate(lines) if ln.get("mode") in ("recursive", "forwarding")]
    accepted = set()
    gen = 0
    path = os.path.join(wd, "rectrace.ndjson")
    for lo in range(0, len(elig), chunk):
        part = elig[lo:lo + chunk]
        write_ndjson(path, [lines[i] for i in part])
        res = tlc("RecursiveTrace", "RecursiveTrace.cfg", workers=4, env={"TRACE": path}, timeout=3000, xmx="10g",
                  extra=["-continue"])
        if res.violated:
            v.notes.setdefault("model_invariant_violated_on_recorded_behaviour", []).append(res.violated)
        elif not res.ok:
            raise vlib.ToolError("RecursiveTrace: " + str(res.error)[:2000])
        gen += res.generated
        for x in res.tagged_raw("ACCEPT"):
            accepted.add(part[int(x.strip()) - 1])
    v.transitions += gen
    missing = [i for i in elig if i not in accepted]
    v.notes["model_conformance"] = {"scenarios": len(elig), "accepted_as_model_behaviours": len(accepted),
                                    "not_accepted_scenarios": missing[:20]}
    return len(elig), len(accepted), missing
