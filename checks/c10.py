"""C10 CNAME chains are returned whole, in order, and loops end safely (DESIGN 4, C10)."""
import vlib
import rescommon as rc
import c01
import reccommon as rec
from vlib import Verdict, workdir, rng

PID = "C10"


def run(tier):
    v = Verdict(PID, tier, "model_checking")
    v.rule = ("MC: the local-resolution model (module LocalResolve, with its question stack, duplicate-question and "
              "recursion-limit checks) over every configuration of MCLocal: every result for a type other than CNAME / "
              "ANY is an alias chain in order followed only by records of the asked type at the final target, no "
              "alias twice; TV: seeded alias graphs (chains of 2..40 links around the limit of 32, cycles, branches) "
              "whose links are placed in an authoritative zone, the non-authoritative root zone, the cache and the "
              "upstream, asked in all three modes; results validated by TLC (ChainOk), errors and partial chains "
              "allowed, hangs and panics not. An evaluation is one resolution.")
    v.assumptions = ["A1: an upstream lists the aliases of an answer section in chain order (it may list a whole chain, "
                     "also one that runs in a circle or branches)",
                     "D3: a referral out of an authoritative local zone (authoritative-only mode) is not an alias chain"]
    wd = workdir("c10")
    vlib.build_harness()
    r_ = rng(10)
    gens = c01.mc_local(v, tier, PID)
    scs = rc.model_local_scenarios(gens)
    rc.run_scenarios(v, PID, wd, "gen", scs, chunk=400)
    scs = rc.alias_scenarios(r_, 400 if tier == "quick" else 4000)
    # directed (the history of known finding F16): forwarding mode, the cache holds n2 -> n3, the forwarder answers the
    # question for n3 with an answer section that leads back to n2 and on to n3 again
    nm = lambda i: ["n%d" % i, "lan"]
    cn = lambda a, b: {"name": nm(a), "type": "CNAME", "data": rc.dotted(nm(b)), "target": nm(b), "ttl": 300}
    hints = rc.zone([], [rc.rr([], "NS", "a.root.", ["a", "root"], ttl=3600), rc.rr(["a", "root"], "A", "10.0.0.1", ttl=3600)], auth=False)
    loop = {"rcode": 0, "aa": False, "answers": [cn(3, 4), cn(4, 1), cn(1, 2), cn(2, 3)], "authority": [], "additional": []}
    scs.append(rc.scenario([hints], [cn(2, 3)], "forwarding", [{"name": nm(2), "type": "TXT"}],
                           table=[{"addr": "10.9.9.9", "qname": nm(3), "qtype": "TXT", "reply": loop}], default={"rcode": 2},
                           tag="forwarder answer section in a circle"))
    lines, rejects = rc.run_scenarios(v, PID, wd, "tv", scs)
    errs = {}
    longest = 0
    for ln in lines:
        for run_ in ln["runs"]:
            k = run_["result"]["kind"] + (":" + run_["result"]["err"] if run_["result"]["err"] else "")
            errs[k] = errs.get(k, 0) + 1
            longest = max(longest, sum(1 for x in run_["result"]["rrs"] if x["type"] == "CNAME"))
    v.notes["tv_outcomes"] = errs
    v.notes["longest_chain_returned"] = longest
    # the recursive / forwarding runs as behaviours of the resolver state machine (Recursive.tla): drift only
    rec.conformance(v, wd, lines, chunk=200)
    # Inv_C10_Chain on the resolver state machine: universes with alias loops, local aliases leaving local data
    rec.explore(v, PID, wd, r_, tier, only=["local zones", "hostile"])
    if lines:
        v.sample({"mode": lines[0]["mode"], "question": lines[0]["runs"][0]["q"], "result": lines[0]["runs"][0]["result"]})
    v.distinct = v.evaluations
    if longest < 5:
        raise vlib.ToolError("vacuous run: no long chain returned")
    return v.finish()
